#!/bin/bash
cd /verif
run() { TESTS="$4" timeout 5400 bash seeded/eval_seed.sh /tmp/wt/$1 $2 $3 > scratch/eval_$2.log 2>&1; tail -1 scratch/eval_$2.log; }
run C02d C02d-qubit-register-local-index C02 "tests/test_tomography.py"
run C14d C14d-clbits-register-index C14 "tests/test_stabilizer.py"
run C19d C19d-from22-second-pair C19 "tests/test_linear_index.py tests/test_lc_classes.py"
run C11d C11d-contiguous-block-shortcut C11 "tests/test_tomography.py"
run C04d C04d-compress-custom-registers-copy C04 "tests/test_stabilizer_circuits.py"
run C10d C10d-histogram-range C10 "tests/test_tomography.py"
run C18d C18d-rref-bool-dtype C18 "tests/test_f2_algebra.py"
