import numpy as np, time, sys
from hv.pyvc import interp as I, sym as S, expr as X
from hv import speclib as L
from htstabilizer import f2_algebra as f2
shapes=[tuple(map(int,a.split('x'))) for a in sys.argv[1:]]
for (m,n) in shapes:
    X.reset()
    t=time.time()
    A=S.fresh_bits("a",(m,n))
    it=I.Interp()
    res=it.run(f2.rref,[A])
    t1=time.time()-t
    Bm,piv=res
    post=L.rref_form(Bm,piv)
    print(m,n,"interp %.2fs"%t1, "stmts",it.stats, "size", X.size([S.bexpr(post)]), "side", it.side, "raised", [(r.etype,r.where) for r in it.raised], flush=True)
    t=time.time()
    v=X.prove([], S.bexpr(post), timeout_s=120)
    print("   ",v, flush=True)
    v2=X.prove([], S.bexpr(L.EQ(Bm,A)), timeout_s=60)
    print("   canary", v2.status, v2.backend, flush=True)
    if v2.model is not None:
        Ac=np.array(S.concretize(A, v2.model)); print("   ",Ac.tolist(), f2.rref(Ac)[0].tolist(), S.concretize(Bm,v2.model).tolist())
