import time, itertools
from hv.checks import c11
for N,m in ((6,5),(7,6)):
    lists=list(itertools.permutations(range(N),m))[:4]
    t=time.time(); r=c11.embed_job((N,lists,"all")); print(N,m,(time.time()-t)/4,"s per list", all(x[1] for x in r))
