import sys, time
from hv.contracts import f2 as C
from hv import symrun
def show(t, label=None):
    t0=time.time()
    recs,stats=symrun._run_task(t)
    bad=[r for r in recs if r[1]!="proved"]
    print(label or getattr(t,'name','task'), len(recs),"recs", "bad:",[(r[0],r[1],str(r[4])[:200]) for r in bad][:4], "%.2fs"%(time.time()-t0), flush=True)
what=sys.argv[1]
if what=="ns": show(C.case_null_space(int(sys.argv[2]),int(sys.argv[3]),timeout=600))
if what=="cut":
    m,n=int(sys.argv[2]),int(sys.argv[3])
    ts=C.rref_cut_tasks(m,n)
    t0=time.time(); tot=0
    # sample a few tasks
    import random; random.seed(1)
    for t in [ts[0], ts[len(ts)//2], ts[len(ts)//2+1], ts[-3], ts[-2], ts[-1]]:
        show(t,"cut-task")
    print(len(ts),"tasks")
if what=="rabc": show(C.case_rabc(int(sys.argv[2]),int(sys.argv[3]),timeout=600))
