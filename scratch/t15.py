import time
from hv.contracts import signstep as SS
from hv.oracle import graphs as G, pauli as P
import random
rnd=random.Random(1)
for n,conn in ((2,"all"),(3,"linear"),(4,"cycle"),(5,"T"),(6,"ladder")):
    reps=G.orbit_table(n)[1]
    gid=reps[-1]
    rows=[(x,z) for x,z,_ in G.graph_state_gens(n,G.adj_from_id(n,gid))]
    rows=G.apply_layer_unsigned(n,rows,[rnd.randrange(6) for _ in range(n)])
    t=time.time(); r=SS.sign_step_job((n,conn,rows,"t")); print(n,conn,r[0][1],r[0][3][:150] if not r[0][1] else "", "%.2fs"%(time.time()-t))
