import sys, time
from hv.contracts import layer as C
from hv import symrun
def show(t):
    t0=time.time()
    recs,stats=symrun._run_task(t)
    bad=[r for r in recs if r[1]!="proved"]
    print(getattr(t,'name','task'), len(recs),"recs", "bad:",[(r[0],r[1],str(r[4])[:400], r[5]) for r in bad][:4], {k:v for k,v in stats.items() if k in('interp_s','canary','t')}, "%.2fs"%(time.time()-t0), flush=True)
show(C.task_basis())
show(C.task_segA(2,2)); show(C.task_segA(3,2)); 
show(C.task_segC(0,8)); show(C.task_segC(2,8))
show(C.task_segD(2)); show(C.task_segD(3))
show(C.case_check_LC(2,2)); show(C.case_generate(2))
show(C.task_to_circuit(2))
show(C.task_segA(6,6)); show(C.task_segD(6)); show(C.task_to_circuit(6)); show(C.case_check_LC(6,6))
