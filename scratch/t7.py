import sys, time
from hv.contracts import stab as C
from hv import symrun
def show(t):
    t0=time.time()
    recs,stats=symrun._run_task(t)
    bad=[r for r in recs if r[1]!="proved"]
    print(getattr(t,'name','task'), len(recs),"recs", "bad:",[(r[0],r[1],str(r[4])[:300]) for r in bad][:4], {k:v for k,v in stats.items() if k in('interp_s','canary')}, "%.2fs"%(time.time()-t0), flush=True)
for n in (2,3,4): show(C.case_expand(n))
show(C.case_entangled(3,1)); show(C.case_entangled(6,5))
show(C.case_equiv(2)); show(C.case_equiv(4)); show(C.case_equiv(6)); show(C.case_equiv_size_mismatch(2,3)); show(C.case_eq(3))
for n in (2,3,4): show(C.case_validate(n))
