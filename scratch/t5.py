import numpy as np, time, sys
from hv.pyvc import interp as I, sym as S, expr as X
from hv import speclib as L
from htstabilizer import f2_algebra as f2
m,n=map(int,sys.argv[1].split('x')); h,k=int(sys.argv[2]),int(sys.argv[3])
X.reset()
A=S.fresh_bits("a",(m,n))
piv=S.GList.guarded([(X.var(f"p_{c}"),c) for c in range(k)])
inv=L.rref_form(A,piv,upto=k)
cnt=S.bexpr(L.EQ(piv.length(), h))
it=I.Interp()
it.hyps += [S.bexpr(inv), cnt]
A0=A.copy()
t=time.time()
env,flow,cond,loop=it.run_loop_body(f2.rref,0,{"A":A,"m":m,"n":n,"pivot_cols":piv,"h":h,"k":k})
print("interp %.2f"%(time.time()-t), "cond",cond,"h'",env["h"],"k'",env["k"], "raised",[(r.etype,r.where) for r in it.raised], it.stats, flush=True)
hp,kp=env["h"],env["k"]
assert kp==k+1
t=time.time()
# post invariant at (h',k+1): h' is SV/SB
goal_len=L.EQ(env["pivot_cols"].length(), hp)
inv2=L.rref_form(env["A"],env["pivot_cols"],upto=k+1)
r=X.prove(it.hyps,S.bexpr(L.AND(goal_len,inv2,L.NOT(flow.exc))),timeout_s=300)
print("preserve",r, "size", X.size([S.bexpr(inv2)]), flush=True)
v=S.fresh_bits("v",(n,))
Av=L.gf2_matvec(A0,v); Bv=L.gf2_matvec(env["A"],v)
goal=L.IFF(L.AND([L.NOT(x) for x in Av]), L.AND([L.NOT(x) for x in Bv]))
r=X.prove(it.hyps,S.bexpr(goal),timeout_s=3)
print("kernel step",r, flush=True)
t=time.time(); ok=0
hyp=it.hyps+[S.bexpr(L.NOT(x)) for x in Av]
for i,x in enumerate(Bv):
    r=X.prove(hyp, S.bexpr(L.NOT(x)), timeout_s=30)
    ok+= r.status=="proved"
    if i<3: print("  fwd row",i,r, flush=True)
print("  fwd per-row",ok,len(Bv),"%.2f"%(time.time()-t), flush=True)
t=time.time(); ok=0
hyp=it.hyps+[S.bexpr(L.NOT(x)) for x in Bv]
for i,x in enumerate(Av):
    r=X.prove(hyp, S.bexpr(L.NOT(x)), timeout_s=30)
    ok+= r.status=="proved"
    if i<3: print("  bwd row",i,r, flush=True)
print("  bwd per-row",ok,len(Av),"%.2f"%(time.time()-t), flush=True)
