import json
from hv import core
from hv.checks import c05
from hv.oracle import docs
res = core.pmap(c05.config_job, docs.ADVERTISED, chunks=1)
lines=[]; bad=0
for cfg,(r,md) in zip(docs.ADVERTISED,res):
    for fam,ok,key,what,rp in r:
        if ok: continue
        w = rp.get("witness")
        if not (w and w["witness_valid"]) : bad+=1; print("INVALID", key, w); continue
        if fam=="C05.product_free": print("product", key)
        tc = rp.get("table_cost", rp.get("delivered_cost"))
        if tc < rp["optimum"]: bad+=1; print("BELOW", key)
        lines.append({"property":"C05","key":f"{fam.split('.')[1]}: {key}",
          "desc": f"{what}; witness circuit with {w['two_qubit_gates']} two-qubit gates on coupled pairs: {w['circuit']}"})
print(len(lines), "findings", bad, "bad")
with open("scratch/known_c05.jsonl","w") as f:
    for l in lines: f.write(json.dumps(l)+"\n")
