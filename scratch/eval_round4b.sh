#!/bin/bash
cd /verif
run() { TESTS="$4" timeout 5400 bash seeded/eval_seed.sh /tmp/wt/$1 $2 $3 > scratch/eval_$2.log 2>&1; tail -1 scratch/eval_$2.log; }
run C15d C15d-equiv-int8-element-codes C15 "tests/test_stabilizer.py"
run C16d C16d-blockwise-kernel-slices C16 "tests/test_find_local_clifford_layer.py"
run C07d C07d-weight-filter-half-open C07 "tests/test_find_local_clifford_layer.py tests/test_stabilizer_circuits.py"
