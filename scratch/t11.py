import sys, time
from hv.contracts import f2 as C
from hv import symrun
def show(t, label=None):
    t0=time.time()
    recs,stats=symrun._run_task(t)
    bad=[r for r in recs if r[1]!="proved"]
    print(label or getattr(t,'name','task'), len(recs),"recs", "bad:",[(r[0],r[1],str(r[4])[:100]) for r in bad][:4], "max t", max(r[3] for r in recs), "%.2fs"%(time.time()-t0), flush=True)
w=sys.argv[1]
if w=="pres":
    show(lambda: C.rref_cut_preserve(36,24,9,23), "pres 36x24 9,23"); show(lambda: C.rref_cut_preserve(24,24,12,23),"pres 24x24 12,23"); show(lambda: C.rref_cut_preserve(12,24,10,23),"pres 12x24 10 23")
    show(lambda: C.rref_cut_exit(36,24),"exit 36x24")
if w=="ns":
    for s in [(12,24),(24,24),(36,24)]: show(C.case_null_space(*s,timeout=300))
