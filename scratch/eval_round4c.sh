#!/bin/bash
cd /verif
run() { TESTS="$4" timeout 5400 bash seeded/eval_seed.sh /tmp/wt/$1 $2 $3 > scratch/eval_$2.log 2>&1; tail -1 scratch/eval_$2.log; }
run C06d C06d-graph-generator-shortcut-argmax C06 "tests/test_lc_classes.py"
run C08d C08d-full-rank-identity-layer C08 "tests/test_find_local_clifford_layer.py tests/test_stabilizer_circuits.py"
run C01d C01d-bucket-range-drops-all-hsh C01 "tests/test_find_local_clifford_layer.py tests/test_stabilizer_circuits.py"
run C12d C12d-product-sign-abs C12 "tests/test_tomography.py"
for x in "C14d-clbits-register-index C14" "C19d-from22-second-pair C19" "C18d-rref-bool-dtype C18" "C10d-histogram-range C10" "C15d-equiv-int8-element-codes C15" "C07d-weight-filter-half-open C07" "C04d-compress-custom-registers-copy C04"; do bash seeded/recheck_one.sh $x; done
