import numpy as np, time, sys
from hv.pyvc import interp as I, sym as S, expr as X
from hv import speclib as L
from htstabilizer import f2_algebra as f2
shapes=[tuple(map(int,a.split('x'))) for a in sys.argv[1:]]
for (m,n) in shapes:
    X.reset()
    A=S.fresh_bits("a",(m,n)); v=S.fresh_bits("v",(n,))
    it=I.Interp()
    A0=A.copy()
    Bm,piv=it.run(f2.rref,[A])
    Av=L.gf2_matvec(A0,v); Bv=L.gf2_matvec(Bm,v)
    goal=L.IFF(L.AND([L.NOT(x) for x in Av]), L.AND([L.NOT(x) for x in Bv]))
    t=time.time()
    r=X.prove([], S.bexpr(goal), timeout_s=120)
    print(m,n,"kernel-equiv whole",r, flush=True)
    # split: two directions, per row
    t=time.time(); ok=True
    hyp=[S.bexpr(L.NOT(x)) for x in Av]
    for i,x in enumerate(Bv):
        r=X.prove(hyp, S.bexpr(L.NOT(x)), timeout_s=60)
        if r.status!="proved": ok=False; print("  fwd row",i,r)
    print("  fwd per-row",ok,"%.2f"%(time.time()-t), flush=True)
    t=time.time(); ok=True
    hyp=[S.bexpr(L.NOT(x)) for x in Bv]
    for i,x in enumerate(Av):
        r=X.prove(hyp, S.bexpr(L.NOT(x)), timeout_s=60)
        if r.status!="proved": ok=False; print("  bwd row",i,r)
    print("  bwd per-row",ok,"%.2f"%(time.time()-t), flush=True)
