import numpy as np, traceback, ast
from hv.pyvc import interp as I, sym as S, expr as X, models as M
from htstabilizer import f2_algebra as f2
A=S.fresh_bits("a",(6,12))
it=I.Interp()
orig=I.Interp.stmt
def dbg(self,st,fr,g):
    try: return orig(self,st,fr,g)
    except IndexError:
        print("STMT", ast.unparse(st)[:80], {k:v for k,v in fr.env.items() if k in 'hki'}); raise
I.Interp.stmt=dbg
try: it.run(f2.rref,[A])
except Exception as e: print(e)
