#!/bin/bash
cd /verif
run() { n=$2; w=$1; shift 2; t="$1"; shift; TESTS="$t" timeout 7200 bash seeded/eval_seed.sh /tmp/wt/$w $n "$@" > scratch/eval_$n.log 2>&1; tail -1 scratch/eval_$n.log; }
run C13e C13e-local-complemented-returns-self "tests/test_graph.py" C13 C19
run C09e C09e-mub-info-default-dict "tests/test_circuit_lookup.py -k mub" C09 C13
run C17e C17e-header-regex-depth "tests/test_stabilizer_circuits.py" C17
run C05e C05e-compress-shortcut-gate-set "tests/test_stabilizer_circuits.py" C05 C07
run C02e C02e-swap-local-indices "tests/test_tomography.py" C02
run C16e C16e-components-sweeps "tests/test_find_local_clifford_layer.py" C16
run C18e C18e-rabc-inplace-fortran "tests/test_f2_algebra.py tests/test_rotate_stabilizer_into_state.py" C18
run C08e C08e-synth-minus-identity "tests/test_rotate_stabilizer_into_state.py" C08
run C11e C11e-measured-array-alias "tests/test_tomography.py" C11
