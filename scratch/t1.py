import numpy as np, time, sys
from hv.pyvc import interp as I, sym as S, expr as X
from htstabilizer import f2_algebra as f2
rng=np.random.default_rng(0)
def conc(v):
    if isinstance(v, np.ndarray): return np.array(S.concretize(v,{}))
    if isinstance(v, S.GList): return [conc(x) for x in v.plain()]
    if isinstance(v,(tuple,list)): return type(v)(conc(x) for x in v)
    return v
def same(a,b):
    if isinstance(a,np.ndarray) or isinstance(b,np.ndarray):
        a,b=np.asarray(a),np.asarray(b); return a.shape==b.shape and np.array_equal(a.astype(np.int64),b.astype(np.int64))
    if isinstance(a,(tuple,list)): return len(a)==len(b) and all(same(x,y) for x,y in zip(a,b))
    return a==b
for fn in [f2.rref, f2.rank, f2.null_space, f2.rref_and_basis_change]:
    for t in range(30):
        m,n=rng.integers(1,7,2)
        A=rng.integers(0,2,(m,n)).astype(np.int8)
        it=I.Interp()
        r=conc(it.run(fn,[A.copy()]))
        e=fn(A.copy())
        if not same(r,e):
            print("MISMATCH",fn.__name__,A,r,e); sys.exit(1)
    print(fn.__name__,"ok")
A=rng.integers(0,2,(4,5)).astype(np.int8); B=rng.integers(0,2,(5,3)).astype(np.int8)
it=I.Interp(); print(same(conc(it.run(f2.mat_mul,[A,B])), f2.mat_mul(A,B)))
