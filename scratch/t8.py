import sys, time
from hv.contracts import stab as C
from hv import symrun
for n in (5,6):
    t0=time.time(); recs,stats=symrun._run_task(C.case_validate(n, timeout=600)); print(n,[(r[0],r[1],r[2],r[3]) for r in recs], stats.get('canary'), "%.1f"%(time.time()-t0), flush=True)
for n in (5,6):
    t0=time.time(); recs,stats=symrun._run_task(C.case_expand(n)); print(n,[(r[0],r[1],r[2],r[3]) for r in recs], stats.get('canary'), "%.1f"%(time.time()-t0), flush=True)
