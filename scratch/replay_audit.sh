#!/bin/bash
# for one seed per property: violation file produced on the patched scratch tree must replay with exit 1 there and exit 0 on the unmodified tree
cd /verif; cp -r evidence /tmp/ev_bk_audit
for s in C01-cache-without-signs C02-cache-without-connectivity C03-readout-shortcut C04-commutative-cancellation C05-copied-linear-line C06-star4-centre C07-id-gate-rejected C08-compress-gate-removed C09-extra-cz-header-adjusted C10-transpose-instead-of-adjoint C11-sorted-qubits C12-parity-lookup-32 C13-cold-cache-alias C14-to-list-cache-ignores-flag C15-triu-cross-commutation C16-filter-range-m C17-depth-reorder C18-rref-cache-no-shape C19-compress-skip-isolated; do
  p=${s:0:3}; EV=/tmp/repo_audit_$$
  git -C /repo worktree add -q $EV HEAD; git -C $EV apply /verif/seeded/$s/patch.diff 2>/dev/null
  HV_REPO=$EV timeout 1500 ./check $p > /tmp/audit_$p.log 2>&1
  f=$(grep "^VIOLATION" /tmp/audit_$p.log | grep -v "no-failing-input-found" | head -1 | sed 's/.*replay=\([^ ]*\).*/\1/')
  if [ -z "$f" ]; then echo "$s: only violations without input"; else
    HV_REPO=$EV timeout 600 ./check $p --replay $f > /tmp/audit_rp1.log 2>&1; a=$?
    timeout 600 ./check $p --replay $f > /tmp/audit_rp0.log 2>&1; b=$?
    echo "$s: replay on patched tree exit=$a, on unmodified tree exit=$b   ($(basename $f))"
  fi
  git -C /repo worktree remove --force $EV; git -C /repo worktree prune
done
cp /tmp/ev_bk_audit/*.json evidence/; rm -rf /tmp/ev_bk_audit
