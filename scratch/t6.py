import sys, time
from hv.contracts import f2 as C
from hv.pyvc import vc
from hv import symrun
def show(t):
    t0=time.time()
    recs,stats=symrun._run_task(t)
    bad=[r for r in recs if r[1]!="proved"]
    print(getattr(t,'name','task'), len(recs),"recs", "bad:",[(r[0],r[1],r[4][:200], r[5] if r[5] and len(str(r[5]))<400 else '') for r in bad][:4], stats, "%.2fs"%(time.time()-t0), flush=True)
show(C.case_mat_mul(2,3,2)); show(C.case_add(2,3)); show(C.case_rref(3,3)); show(C.case_rank(4,3))
show(C.case_null_space(3,3)); show(C.case_null_space(4,2)); show(C.case_rabc(3,3))
for t in C.rref_cut_tasks(3,3): show(t)
