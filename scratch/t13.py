import time
from hv.contracts import stab as C
from hv import symrun
def show(t):
    t0=time.time(); recs,stats=symrun._run_task(t)
    bad=[r for r in recs if r[1]!="proved"]
    print(getattr(t,'name','task'), len(recs),"recs", [r[0].split(':')[-1] for r in recs], "bad:",[(r[0],r[1],str(r[4])[:300]) for r in bad][:4], stats.get('canary'), "%.2fs"%(time.time()-t0), flush=True)
show(C.case_init_tuple(2,True)); show(C.case_init_tuple(3,False,"int64")); show(C.case_init_graph(3)); show(C.case_expand(3)); show(C.case_validate(3))
