from hv.contracts import pipeline as C
from hv import symrun
for t in C.glue_tasks():
    recs,stats=symrun._run_task(t)
    for r in recs: print(r[0], r[1], r[4][:300] if r[1]!='proved' else '')
