#!/bin/bash
# regenerates every evidence file by running each registered quick command on /repo, then validates evidence + manifest against the schemas
cd "$(dirname "$0")"
fail=0
for c in C01 C02 C03 C04 C05 C06 C07 C08 C09 C10 C11 C12 C13 C14 C15 C16 C17 C18 C19; do
  s=$(date +%s); ./check $c --tier quick > /tmp/quick_$c.log 2>&1; e=$?
  echo "$c exit=$e $(( $(date +%s)-s ))s $(tail -1 /tmp/quick_$c.log | cut -c1-150)"
  [ $e -ne 0 ] && fail=1
done
.venv/bin/python - <<'PY'
import json, jsonschema, glob
es = json.load(open('/root/.vp/EVIDENCE.schema.json')); ms = json.load(open('/root/.vp/MANIFEST.schema.json'))
jsonschema.validate(json.load(open('MANIFEST.json')), ms)
for p in sorted(glob.glob('evidence/*.json')):
    e = json.load(open(p)); jsonschema.validate(e, es)
    assert e['violations'] == 0, p
print("manifest + evidence valid")
PY
exit $fail
