#!/bin/bash
# Offline construction of the verifier interpreter: python 3.12 (same as /venv, which has the
# repository and qiskit/numpy installed) + z3-solver, cvc5, jsonschema, hypothesis from the wheelhouse.
set -e
HERE="$(cd "$(dirname "${BASH_SOURCE[0]}")" && pwd)"
cd "$HERE"
rm -rf .venv
/venv/bin/python -m venv .venv
PIP_NO_INDEX=1 .venv/bin/pip install -q --no-index --find-links /opt/veriftools/wheels \
    z3-solver cvc5 jsonschema hypothesis icontract deal crosshair-tool
echo "import site; site.addsitedir('/venv/lib/python3.12/site-packages')" \
    > .venv/lib/python3.12/site-packages/_overlay.pth
.venv/bin/python -c "import z3, cvc5, jsonschema, qiskit, numpy; print('verifier venv ok', z3.get_version_string())"
