"""Verification-condition driver: one `Case` = one function, one contract, one input shape.

  symbolic run of the REAL function text (interp) on fresh symbolic inputs of that shape
  obligations: every postcondition clause, no-raise, frame (arguments unmodified), side obligations
               (loop unwinding, int8 range), callee preconditions of modular calls
  discharge:   expr.prove  (ANF -> z3 -> cvc5)
  refutation:  model -> concrete inputs -> the real function is run by CPython and the same contract text is
               evaluated on its real output; only if that also fails it is a violation (else: checker error)
"""
from __future__ import annotations
import copy, time, traceback
import numpy as np
from . import expr as X, sym as S, interp as I, models as M
from .sym import Unsupported


class Outcome:
    """what a call did: result value and raise conditions (symbolic: E guards; native: bools)"""

    def __init__(self, result=None, raised=None, interp=None, exc=None):
        self.result = result
        self._raised = raised or []
        self.interp = interp
        self.exc = exc            # native exception instance or None

    def raises(self, *etypes):
        if self.interp is not None:
            return X.Or(*[r.guard for r in self._raised if not etypes or r.etype in etypes])
        if self.exc is None:
            return False
        return not etypes or type(self.exc).__name__ in etypes

    def raise_sites(self):
        return [(r.etype, r.where) for r in self._raised]


class Case:
    def __init__(self, name, fn, make, post, *, modular=None, noraise=True, frozen=(), canary=None, timeout=30.0,
                 loop_bound=64, circuit_model=False, cover=True, native_call=None, replay_args=None, freeze=None):
        self.name, self.fn, self.make, self.post = name, fn, make, post
        self.modular = modular or {}
        self.noraise, self.frozen, self.canary, self.timeout = noraise, frozen, canary, timeout
        self.loop_bound, self.circuit_model, self.cover = loop_bound, circuit_model, cover
        self.native_call = native_call
        self.freeze = freeze                # callable(args) -> [(name, ndarray)] further arrays that must not be written
        self.replay_args = replay_args      # (model, args, kwargs) -> (concrete args, kwargs) for modular cases


class Rec:
    """result of one obligation"""
    __slots__ = ("name", "status", "backend", "time", "info", "cex", "native")

    def __init__(self, name, status, backend="", time=0.0, info="", cex=None, native=None):
        self.name, self.status, self.backend, self.time, self.info, self.cex, self.native = name, status, backend, time, info, cex, native

    def as_tuple(self):
        return (self.name, self.status, self.backend, round(self.time, 4), self.info, self.cex, self.native)


def _jsonable(v):
    if isinstance(v, np.ndarray):
        return {"ndarray": v.tolist(), "dtype": str(v.dtype)}
    if isinstance(v, (list, tuple)):
        return [_jsonable(x) for x in v]
    if isinstance(v, (np.integer,)):
        return int(v)
    if isinstance(v, (np.bool_,)):
        return bool(v)
    if isinstance(v, dict):
        return {str(k): _jsonable(x) for k, x in v.items()}
    if isinstance(v, (int, float, str, bool)) or v is None:
        return v
    return repr(v)


def native_eval(case: Case, cargs, ckwargs, clause):
    """run the real function natively on concrete inputs and evaluate the contract clause on the real outcome"""
    a2 = copy.deepcopy(cargs)
    k2 = copy.deepcopy(ckwargs)
    before = copy.deepcopy(cargs)
    try:
        call = case.native_call or case.fn
        res = call(*a2, **k2)
        out = Outcome(result=res)
    except Exception as e:      # the real function raised
        out = Outcome(result=None, exc=e)
    clauses = dict(_post_with_builtin(case, before, k2, out, a2))
    val = clauses.get(clause)
    return out, val, clauses


def _post_with_builtin(case, args, kwargs, out, args_after=None):
    """contract clauses + built-in clauses (noraise, frame)"""
    cl = []
    if case.noraise:
        cl.append(("noraise", X.Not(out.raises()) if out.interp is not None else (out.exc is None)))
    if out.interp is None and out.exc is not None and case.noraise:
        return cl       # native: raised although it must not; other clauses have no result to talk about
    for nm, e in case.post(args, kwargs, out):
        cl.append((nm, e))
    if out.interp is None and args_after is not None:
        for i in case.frozen:
            a, b = args[i], args_after[i]
            same = np.array_equal(np.asarray(a), np.asarray(b)) if isinstance(a, np.ndarray) else True
            cl.append((f"frame.arg{i}_unmodified", bool(same)))
    return cl


def run_case(case: Case):
    """returns list of Rec tuples (picklable) plus stats"""
    t0 = time.time()
    recs = []
    X.reset()
    M.USE_CIRCUIT_MODEL[0] = case.circuit_model
    try:
        args, kwargs, pre = case.make()
        it = I.Interp(modular=case.modular, loop_bound=case.loop_bound)
        it.name_overrides = dict(getattr(case, "name_overrides", {}) or {})
        pre_e = S.bexpr(pre)
        if pre_e is not True:
            it.hyps.append(pre_e)
        for i in case.frozen:
            if isinstance(args[i], np.ndarray):
                it.freeze(f"arg{i}", args[i])
        extra_frozen = case.freeze(args) if case.freeze else []
        for nm, arr in extra_frozen:
            it.freeze(nm, arr)
        result = it.run(case.fn, args, kwargs)
        out = Outcome(result=result, raised=it.raised, interp=it)
        clauses = _post_with_builtin(case, args, kwargs, out)
        for i in case.frozen:
            bad = X.Or(*[gd for gd, nm in it.frame_violations if nm == f"arg{i}"])
            clauses.append((f"frame.arg{i}_unmodified", X.Not(bad)))
        for fnm, _ in extra_frozen:
            bad = X.Or(*[gd for gd, nm in it.frame_violations if nm == fnm])
            clauses.append((f"frame.{fnm}_unmodified", X.Not(bad)))
        for nm, goal in it.side:
            clauses.append((f"side.{nm}", goal))
        hyps = list(it.hyps)
        t_interp = time.time() - t0
    except Unsupported as e:
        return [Rec(case.name + ":interp", "unknown", "pyvc", time.time() - t0, f"unsupported: {e}").as_tuple()], {}
    except Exception:
        return [Rec(case.name + ":interp", "error", "pyvc", time.time() - t0, traceback.format_exc()[-1500:]).as_tuple()], {}

    def decide(nm, goal):
        v = X.prove(hyps, S.bexpr(goal), timeout_s=case.timeout)
        rec = Rec(f"{case.name}:{nm}", v.status, v.backend, v.time, v.info)
        if v.status == "refuted":
            model = v.model or {}
            if case.replay_args is not None:
                cargs, ckw = case.replay_args(model, args, kwargs)
            else:
                cargs = S.concretize(args, model)
                ckw = S.concretize(kwargs, model)
            sym_result = None
            try:
                sym_result = S.concretize(result, model)
            except Exception as e:       # noqa
                sym_result = f"<not concretizable: {e}>"
            try:
                outn, val, allc = native_eval(case, cargs, ckw, nm)
            except Exception:
                rec.status = "error"
                rec.info = "native replay crashed: " + traceback.format_exc()[-800:]
                return rec
            rec.cex = {"args": _jsonable(cargs), "kwargs": _jsonable(ckw),
                       "native_result": _jsonable(outn.result) if outn.exc is None else f"raised {type(outn.exc).__name__}: {outn.exc}",
                       "symbolic_result_under_model": _jsonable(sym_result), "clause": nm}
            if nm.startswith("side."):
                rec.native = None          # no native counterpart: reported without failing input
            else:
                rec.native = (val is False) or (val is np.False_) or (val is not None and not isinstance(val, (X.E, S.SB)) and not bool(val))
                if val is None:
                    rec.native = None
        return rec

    for nm, goal in clauses:
        recs.append(decide(nm, goal))
    # vacuity: the precondition (and callee assumptions) must be satisfiable
    if case.cover:
        v = X.prove(hyps, False, timeout_s=case.timeout, try_anf=False)
        recs.append(Rec(f"{case.name}:cover.pre_satisfiable", "proved" if v.status == "refuted" else ("refuted" if v.status == "proved" else "unknown"),
                        v.backend, v.time, "precondition/assumptions must be satisfiable (vacuity guard)"))
    stats = {"interp_s": round(t_interp, 3), "stmts": it.stats.get("stmts", 0), "feasibility_queries": it.stats.get("feasibility_queries", 0),
             "raise_sites": out.raise_sites()[:6],
             "native_raise_sites": [(r.etype, r.where, r.msg[:80]) for r in it.raised if getattr(r, "native", False)][:6]}
    # canary: a deliberately false postcondition must be refuted, with a counterexample that replays natively
    if case.canary is not None:
        try:
            goal = case.canary(args, kwargs, out)
            v = X.prove(hyps, S.bexpr(goal), timeout_s=case.timeout)
            ok = False
            if v.status == "refuted":
                if case.replay_args is not None:
                    cargs, ckw = case.replay_args(v.model or {}, args, kwargs)
                else:
                    cargs = S.concretize(args, v.model or {})
                    ckw = S.concretize(kwargs, v.model or {})
                a2 = copy.deepcopy(cargs)
                try:
                    outn = Outcome(result=(case.native_call or case.fn)(*a2, **copy.deepcopy(ckw)))
                except Exception as e:
                    outn = Outcome(exc=e)
                nv = case.canary(cargs, ckw, outn)
                ok = not bool(S.bexpr(nv)) if not isinstance(S.bexpr(nv), X.E) else False
            stats["canary"] = "refuted+replayed" if ok else f"NOT-REFUTED({v.status})"
        except Exception:
            stats["canary"] = "canary crashed: " + traceback.format_exc()[-300:]
    return [r.as_tuple() for r in recs], stats
