"""Models of numpy / builtins / stdlib operations on symbolic values, and the native-call bridge.

Rule: a call with only concrete arguments to a whitelisted pure callable is executed by CPython itself; a call
involving symbolic data either has an exact model here or raises Unsupported.
"""
from __future__ import annotations
import builtins, copy as _copy, itertools, operator, types
import numpy as np
from . import expr as X
from .expr import E
from . import sym as S
from .sym import SB, SL, SV, GList, SArr, Unsupported, merge, bexpr, mkbool, mkbit, lnot, land, lor, veq, has_sym, is_sym, sarr, decl_of


# ------------------------------------------------------------------------------------------- helpers

def unwrap_plain(v):
    if isinstance(v, GList) and v.is_plain():
        return v.plain()
    return v


class OneShot:
    """model of a one-shot iterator object (zip / map / filter / enumerate / reversed / generator expression).
    CPython semantics kept: consumed at most once (a second pass sees what is left: nothing), always truthy, no len(), no indexing.  The elements were
    computed eagerly (the model does not interleave their evaluation with the consumer).  Its position is a single state, so it may only be consumed under the
    path condition it was created under; anything else is refused (Unsupported -> UNDECIDED) instead of guessed."""
    _hv_oneshot = True

    def __init__(self, interp, items, kind):
        self.interp, self.items, self.kind = interp, list(items), kind
        self.pos = 0
        self.guard = getattr(interp, "cur_g", True)

    def _same_path(self, g):
        if g is not self.guard:
            raise Unsupported(f"one-shot {self.kind} iterator consumed under another path condition than it was created under")

    def take_all(self, g):
        self._same_path(g)
        rest = self.items[self.pos:]
        self.pos = len(self.items)
        return rest

    def take_one(self, g):
        self._same_path(g)
        if self.pos >= len(self.items):
            return None
        gd, v = self.items[self.pos]
        if any(x is not True for x, _ in self.items[:self.pos + 1]):
            raise Unsupported(f"next() on a {self.kind} iterator with symbolic membership")
        self.pos += 1
        return (v,)

    def __iter__(self):                       # native consumer (dict(zip(..)), ''.join(<generator>), np.array(list(..)))
        rest = self.take_all(getattr(self.interp, "cur_g", True))
        if any(g is not True for g, _ in rest):
            raise Unsupported(f"{self.kind} iterator with symbolic membership passed to native code")
        return iter([to_native(v) for _, v in rest])

    def __bool__(self):
        return True

    def __len__(self):
        raise Unsupported(f"len() of a {self.kind} iterator (TypeError in CPython)")

    def __getitem__(self, i):
        raise Unsupported(f"indexing a {self.kind} iterator (TypeError in CPython)")

    def __repr__(self):
        return f"<one-shot {self.kind} iterator, {len(self.items) - self.pos} left>"


def to_native(v):
    """deep conversion of interpreter containers to native ones (GList -> list); symbolic content stays"""
    if isinstance(v, OneShot):
        return iter(v)
    if isinstance(v, GList):
        return [to_native(x) for x in v.plain()]
    if isinstance(v, tuple):
        return tuple(to_native(x) for x in v)
    if isinstance(v, list):
        return [to_native(x) for x in v]
    return v


def wrap(res, like=None, decl=None):
    """results of native numpy calls on object arrays become SArr with a declared dtype"""
    if isinstance(res, np.ndarray) and res.dtype == object and not isinstance(res, SArr):
        r = res.view(SArr)
        r.decl = decl if decl is not None else (decl_of(like) if like is not None else None)
        return r
    if isinstance(res, SArr) and res.decl is None:
        res.decl = decl if decl is not None else (decl_of(like) if like is not None else None)
    return res


def first_array(*vs):
    for v in vs:
        if isinstance(v, np.ndarray):
            return v
        if isinstance(v, (list, tuple)):
            r = first_array(*v)
            if r is not None:
                return r
    return None


def result_decl(a, b):
    da, db = decl_of(a) if isinstance(a, np.ndarray) else None, decl_of(b) if isinstance(b, np.ndarray) else None
    if da is not None and db is not None:
        return np.result_type(da, db)
    return da if da is not None else db


def pyscalar(v):
    if isinstance(v, np.bool_):
        return bool(v)
    if isinstance(v, np.integer):
        return int(v)
    if isinstance(v, np.floating):
        return float(v)
    return v


def binop(interp, f, a, b):
    if is_sym(a) or is_sym(b):
        a, b = pyscalar(a), pyscalar(b)
    if isinstance(a, GList) or isinstance(b, GList):
        if f is operator.add:
            ga = a if isinstance(a, GList) else GList(a)
            return ga.concat(b)
        if f is operator.mul and isinstance(a, GList) and isinstance(b, int):
            return GList.guarded(a.slots * b)
        a, b = unwrap_plain(a), unwrap_plain(b)
        if isinstance(a, GList) or isinstance(b, GList):
            raise Unsupported("operator on list with symbolic membership")
    if isinstance(a, np.ndarray) or isinstance(b, np.ndarray):
        aa = a if isinstance(a, np.ndarray) else None
        bb = b if isinstance(b, np.ndarray) else None
        sym_involved = (aa is not None and aa.dtype == object) or (bb is not None and bb.dtype == object) or is_sym(a) or is_sym(b)
        if sym_involved:
            decl = result_decl(a, b)
            if aa is not None and aa.dtype != object:
                a = sarr(aa, aa.dtype)
            if bb is not None and bb.dtype != object:
                b = sarr(bb, bb.dtype)
            if f is operator.matmul:
                _range_check(interp, a, b, decl)
            elif f in (operator.add, operator.sub, operator.mul, operator.lshift, operator.pow, operator.iadd, operator.isub, operator.imul, operator.ilshift):
                _elementwise_range_guard(f, a, b, decl)
            if is_sym(a) or is_sym(b):
                # scalar (symbolic) with array: elementwise by hand (numpy would try to treat the scalar as a sequence)
                arr, sc, left = (b, a, True) if is_sym(a) else (a, b, False)
                out = np.empty(arr.shape, dtype=object)
                fo, fi = out.reshape(-1), arr.reshape(-1)
                for i in range(fi.size):
                    fo[i] = f(sc, fi[i]) if left else f(fi[i], sc)
                return wrap(out, decl=decl)
            res = f(a, b)
            return wrap(res, decl=decl)
        return f(a, b)
    return f(a, b)


def _value_range(v):
    if isinstance(v, (bool, np.bool_)):
        return int(v), int(v)
    if isinstance(v, (int, np.integer)):
        return int(v), int(v)
    if isinstance(v, SB):
        return 0, 1
    if isinstance(v, SL):
        return v.bounds()
    if isinstance(v, SV):
        rs = [_value_range(x) for _, x in v.alts]
        if any(r is None for r in rs):
            return None
        return min(r[0] for r in rs), max(r[1] for r in rs)
    return None


def _elementwise_range_guard(f, a, b, decl):
    """numpy computes elementwise integer arithmetic in the operands' fixed-width dtype and WRAPS silently; the model computes mathematical integers.  If some
    entry of the result could leave the dtype's range the model would be unfaithful, so it refuses (UNDECIDED) instead of proving something about other numbers."""
    if decl is None:
        return
    dt = np.dtype(decl)
    if dt.kind not in "iu" or dt.itemsize >= 8:
        return
    info = np.iinfo(dt)
    ra = [_value_range(x) for x in (a.reshape(-1) if isinstance(a, np.ndarray) else [a])]
    rb = [_value_range(x) for x in (b.reshape(-1) if isinstance(b, np.ndarray) else [b])]
    if any(r is None for r in ra + rb) or not ra or not rb:
        return
    alo, ahi = min(r[0] for r in ra), max(r[1] for r in ra)
    blo, bhi = min(r[0] for r in rb), max(r[1] for r in rb)
    if f in (operator.add, operator.iadd):
        lo, hi = alo + blo, ahi + bhi
    elif f in (operator.sub, operator.isub):
        lo, hi = alo - bhi, ahi - blo
    elif f in (operator.mul, operator.imul):
        c = [alo * blo, alo * bhi, ahi * blo, ahi * bhi]
        lo, hi = min(c), max(c)
    elif f in (operator.lshift, operator.ilshift):
        if blo < 0 or bhi > 62:
            return
        c = [alo << blo, alo << bhi, ahi << blo, ahi << bhi]
        lo, hi = min(c), max(c)
    else:
        if blo < 0 or bhi > 16 or max(abs(alo), abs(ahi)) > 1 << 16:
            return
        c = [alo ** blo, alo ** bhi, ahi ** blo, ahi ** bhi]
        lo, hi = min(c + [0]), max(c)
    if lo < info.min or hi > info.max:
        raise Unsupported(f"elementwise {f.__name__} on {dt} arrays may leave the dtype's range ([{lo}, {hi}]): numpy wraps around, the model does not")


def _range_check(interp, a, b, decl):
    """int8 products: numpy computes m1 @ m2 in the operands' dtype; record that no entry can leave [-128,127]"""
    if decl is not None and np.dtype(decl) == np.int8:
        inner = a.shape[-1]
        ok = inner <= 127
        interp.side.append(("int8-range[matmul inner dimension %d]" % inner, ok))


# -------------------------------------------------------------------------------------- iteration

def iter_values(interp, v, g):
    if isinstance(v, OneShot):
        return v.take_all(g)
    if isinstance(v, GList):
        return list(v.slots)
    if isinstance(v, (list, tuple, range, str, dict, set, frozenset)) or isinstance(v, (itertools.product, itertools.combinations, zip, enumerate, map, filter, reversed)):
        return [(True, x) for x in v]
    if isinstance(v, types.GeneratorType) or hasattr(v, "__next__"):
        return [(True, x) for x in v]
    if isinstance(v, np.ndarray):
        if v.ndim == 0:
            raise TypeError("iteration over a 0-d array")
        return [(True, wrap(v[i], like=v) if isinstance(v[i], np.ndarray) else v[i]) for i in range(v.shape[0])]
    if isinstance(v, GArr):
        return [(gd, row) for gd, row in v.rows]
    if isinstance(v, SV):
        raise Unsupported("iteration over a symbolic alternative value")
    if isinstance(v, type(dict().items())) or isinstance(v, type(dict().keys())) or isinstance(v, type(dict().values())):
        return [(True, x) for x in v]
    try:
        return [(True, x) for x in v]
    except TypeError:
        raise Unsupported(f"iteration over {type(v).__name__}")


def contains(interp, container, x):
    if isinstance(container, GList):
        return container.contains(x)
    if isinstance(container, (list, tuple)):
        if is_sym(x) or has_sym(container):
            return lor(*[veq(v, x) for v in container])
        return x in container
    if isinstance(container, str):
        if is_sym(x):
            raise Unsupported("symbolic substring test")
        return x in container
    if isinstance(container, np.ndarray):
        if is_sym(x) or container.dtype == object:
            return lor(*[veq(v, x) for v in container.reshape(-1)])
        return x in container
    if is_sym(x):
        raise Unsupported("symbolic membership test")
    return x in container


# -------------------------------------------------------------------------------------- indexing

def _sv_parts(idx):
    """find symbolic components of an index; returns list of paths"""
    if isinstance(idx, (SV, SB, SL)):
        return True
    if isinstance(idx, (tuple, list)):
        return any(_sv_parts(x) for x in idx)
    if isinstance(idx, slice):
        return any(_sv_parts(x) for x in (idx.start, idx.stop, idx.step))
    return False


def _expand_index(idx):
    """all (guard, concrete index) instantiations of an index containing SV / SB components"""
    if isinstance(idx, (SB, SL)):
        idx = SV.of(idx)
    if isinstance(idx, SV):
        return [(gd, v) for gd, v in idx.alts]
    if isinstance(idx, (tuple, list)):
        parts = [_expand_index(x) for x in idx]
        out = []
        for combo in itertools.product(*parts):
            gd = X.And(*[c[0] for c in combo])
            if gd is not False:
                out.append((gd, type(idx)(c[1] for c in combo)))
        return out
    if isinstance(idx, slice):
        parts = [_expand_index(x) for x in (idx.start, idx.stop, idx.step)]
        out = []
        for combo in itertools.product(*parts):
            gd = X.And(*[c[0] for c in combo])
            if gd is not False:
                out.append((gd, slice(*[c[1] for c in combo])))
        return out
    return [(True, idx)]


def _native_idx(idx):
    if isinstance(idx, np.integer):
        return int(idx)
    return idx


def load_index(interp, obj, idx, g):
    if isinstance(obj, SV):
        return SV([(gd, load_index(interp, v, idx, X.And(g, gd))) for gd, v in obj.alts]).simp()
    if isinstance(obj, GList):
        if _sv_parts(idx):
            alts = _expand_index(idx)
            return SV([(gd, load_index(interp, obj, i, X.And(g, gd))) for gd, i in alts]).simp()
        if isinstance(idx, slice):
            if obj.is_plain():
                return GList(obj.plain()[idx])
            raise Unsupported("slice of a list with symbolic membership")
        return obj.getitem(_native_idx(idx))
    if isinstance(obj, GArr):
        return obj.getitem(idx)
    if _sv_parts(idx):
        alts = _expand_index(idx)
        acc = None
        for gd, i in reversed(alts):
            try:
                v = load_index(interp, obj, i, X.And(g, gd))
            except IndexError:
                # the alternative alone is tried first: its guard does not mention the path, so the answer is shared by all paths
                if interp.feasible(gd) and interp.feasible(X.And(g, gd)):
                    interp.do_raise(X.And(g, gd), "IndexError", "index out of range", types.SimpleNamespace(fname="<index>"), None)
                continue
            acc = v if acc is None else merge(gd, v, acc)
        if acc is None:
            raise IndexError("index out of range on every path")
        return acc
    if isinstance(obj, np.ndarray):
        r = obj[idx]
        if isinstance(r, np.ndarray):
            return wrap(r, like=obj)
        return r
    if isinstance(obj, (list, tuple, str, dict, range)):
        return obj[_native_idx(idx)]
    # repository objects with __getitem__ (NTuple)
    gi = getattr(type(obj), "__getitem__", None)
    if isinstance(gi, types.FunctionType):
        return interp.call(gi, [obj, idx], {}, g)
    return obj[idx]


def _guarded_store(arr, idx, v, guard):
    """arr[idx] = v under guard (E|True) with numpy broadcasting"""
    if isinstance(v, np.ndarray) and v.dtype != object and arr.dtype == object:
        v = sarr(v, v.dtype)
    else:
        v = pyscalar(v)
    if guard is True:
        if isinstance(v, np.ndarray) and v.dtype == object and arr.dtype != object:
            raise Unsupported("store of symbolic data into a typed native array")
        arr[idx] = v
        return
    old = arr[idx]
    if isinstance(old, np.ndarray):
        vb = np.broadcast_to(np.asarray(v, dtype=object) if not isinstance(v, np.ndarray) else v, old.shape)
        new = np.empty(old.shape, dtype=object)
        fo, fv, fn = old.reshape(-1), np.array(vb, dtype=object).reshape(-1), new.reshape(-1)
        for i in range(fn.size):
            fn[i] = merge(guard, fv[i], fo[i])
        arr[idx] = new
    else:
        arr[idx] = merge(guard, v, old)


def store_index(interp, obj, idx, v, g):
    if isinstance(obj, np.ndarray):
        base = obj
        while isinstance(base, np.ndarray) and base.base is not None:
            base = base.base
        if id(base) in interp.frozen:
            interp.frame_violations.append((g, interp.frozen[id(base)]))
        if obj.dtype != object:
            if has_sym(v) or _sv_parts(idx) or g is not True:
                raise Unsupported("symbolic store into a native typed array (array was created outside the interpreter)")
            obj[idx] = v
            return
        if isinstance(v, GList):
            v = np.array(to_native(v), dtype=object)
        if _sv_parts(idx):
            for gd, i in _expand_index(idx):
                try:
                    _guarded_store(obj, i, v, X.And(g, gd))
                except IndexError:
                    if interp.feasible(gd) and interp.feasible(X.And(g, gd)):
                        interp.do_raise(X.And(g, gd), "IndexError", "index out of range", types.SimpleNamespace(fname="<store>"), None)
            return
        _guarded_store(obj, idx, v, g)
        return
    if isinstance(obj, GList):
        if _sv_parts(idx) or not obj.is_plain():
            raise Unsupported("symbolic list item assignment")
        gd, old = obj.slots[idx]
        obj.slots[idx] = (gd, v if g is True else merge(g, v, old))
        return
    if isinstance(obj, dict):
        if is_sym(idx):
            raise Unsupported("symbolic dict key")
        obj[idx] = v if (g is True or idx not in obj) else merge(g, v, obj[idx])
        return
    if isinstance(obj, list):
        obj[idx] = v if g is True else merge(g, v, obj[idx])
        return
    raise Unsupported(f"item assignment on {type(obj).__name__}")


# ------------------------------------------------------------------------------------ attributes

def get_attr(interp, obj, attr, g):
    if isinstance(obj, SV):
        return SV([(gd, get_attr(interp, v, attr, X.And(g, gd))) for gd, v in obj.alts]).simp()
    if isinstance(obj, np.ndarray):
        if attr == "dtype":
            d = decl_of(obj)
            return d if d is not None else obj.dtype
        if attr == "T":
            return wrap(obj.T, like=obj)
        if attr in ("shape", "ndim", "size"):
            return getattr(obj, attr)
    if isinstance(obj, GArr):
        return obj.get_attr(attr)
    if isinstance(obj, SCirc):
        if attr == "num_qubits":
            return obj.n
    return getattr(obj, attr)


# ------------------------------------------------------------------------------------ guarded rows array

class GArr:
    """result of np.array(<list with symbolic membership>): rows with presence guards, fixed row length `cols`.
    When no row is present the real result is np.array([]) = float64 array of shape (0,)."""

    def __init__(self, rows, cols, decl):
        self.rows, self.cols, self.decl = rows, cols, decl

    def nrows(self):
        return GList.guarded([(g, None) for g, _ in self.rows]).length()

    def empty_guard(self):
        return X.And(*[X.Not(g) for g, _ in self.rows])

    def get_attr(self, attr):
        e = self.empty_guard()
        if attr == "shape":
            return merge(e, (0,), (self.nrows(), self.cols))
        if attr == "dtype":
            return merge(e, np.dtype(np.float64), self.decl)
        if attr == "ndim":
            return merge(e, 1, 2)
        raise Unsupported(f"attribute {attr} of guarded array")

    def getitem(self, idx):
        raise Unsupported("indexing into an array with symbolic row count")


# ------------------------------------------------------------------------------------ circuit model

class SCirc:
    """model of qiskit.QuantumCircuit for code that only appends gates: a guarded gate list"""

    def __init__(self, n):
        self.n = n
        self.gates = GList()

    def add(self, g, name, qubits):
        self.gates.append_guarded(g, (name, tuple(qubits)))


_GATE_METHODS = {"h": 1, "s": 1, "sdg": 1, "x": 1, "y": 1, "z": 1, "id": 1, "cx": 2, "cz": 2, "swap": 2}


# ------------------------------------------------------------------------------------ method calls

def call_method(interp, obj, name, args, kwargs, g):
    if isinstance(obj, SV):
        return SV([(gd, call_method(interp, v, name, args, kwargs, X.And(g, gd))) for gd, v in obj.alts]).simp()
    if isinstance(obj, GList):
        return glist_method(interp, obj, name, args, kwargs, g)
    if isinstance(obj, SCirc):
        if name in _GATE_METHODS:
            if any(is_sym(a) for a in args):
                raise Unsupported("gate on a symbolic qubit index")
            obj.add(g, name, [int(a) for a in args])
            return None
        hook = getattr(obj, "guarded_" + name, None)          # subclasses of the model may implement further methods that need the path guard
        if hook is not None:
            return hook(g, *args, **kwargs)
        raise Unsupported(f"QuantumCircuit.{name} on the circuit model")
    if isinstance(obj, np.ndarray) and (obj.dtype == object or isinstance(obj, SArr)):
        return sarr_method(interp, obj, name, args, kwargs, g)
    if isinstance(obj, GArr):
        raise Unsupported(f"method {name} of guarded array")
    if is_sym(obj):
        if name == "bit_count":
            if isinstance(obj, SB):
                return obj
        raise Unsupported(f"method {name} on symbolic scalar")
    # repository instance: interpret the method
    meth = None
    cls = type(obj)
    if isinstance(obj, type):                     # classmethod / staticmethod via the class
        raw = None
        for k in obj.__mro__:
            if name in k.__dict__:
                raw = k.__dict__[name]
                break
        if isinstance(raw, staticmethod) and interp_is_repo(raw.__func__):
            return interp.call(raw.__func__, args, kwargs, g)
        if isinstance(raw, classmethod) and interp_is_repo(raw.__func__):
            return interp.call(raw.__func__, [obj] + args, kwargs, g)
        if isinstance(raw, types.FunctionType) and interp_is_repo(raw):
            return interp.call(raw, args, kwargs, g)
        return interp.call(getattr(obj, name), args, kwargs, g)
    for k in cls.__mro__:
        if name in k.__dict__:
            meth = k.__dict__[name]
            break
    if isinstance(meth, types.FunctionType) and interp_is_repo(meth):
        return interp.call(meth, [obj] + args, kwargs, g)
    if isinstance(meth, staticmethod) and interp_is_repo(meth.__func__):
        return interp.call(meth.__func__, args, kwargs, g)
    if isinstance(meth, classmethod) and interp_is_repo(meth.__func__):
        return interp.call(meth.__func__, [cls] + args, kwargs, g)
    if isinstance(obj, types.ModuleType):
        return interp.call(getattr(obj, name), args, kwargs, g)
    if isinstance(obj, np.ndarray) and name == "fill" and g is not True:
        raise Unsupported("guarded fill of a native array")
    bound = getattr(obj, name)
    return call_native(interp, bound, args, kwargs, g)


def interp_is_repo(fn):
    mod = getattr(fn, "__module__", None) or ""
    return mod.startswith("htstabilizer") or mod.startswith("src.htstabilizer")


def glist_method(interp, obj, name, args, kwargs, g):
    if name == "append":
        obj.append_guarded(g, args[0])
        return None
    if name == "count":
        return GList.guarded([(land_e(sg, veq(v, args[0])), None) for sg, v in obj.slots]).length()
    if name == "copy":
        return obj.copy()
    if name == "index":
        if obj.is_plain() and not has_sym(obj.plain()) and not is_sym(args[0]):
            return obj.plain().index(args[0])
        # first slot equal to x
        alts, none_before = [], True
        for j, (sg, v) in enumerate(obj.slots):
            hit = bexpr(land(sg, veq(v, args[0])))
            pos = GList.guarded(obj.slots[:j]).length()
            alts.append((X.And(none_before, hit), pos))
            none_before = X.And(none_before, X.Not(hit))
        if none_before is not False:
            interp.do_raise(X.And(g, none_before), "ValueError", "not in list", types.SimpleNamespace(fname="<list.index>"), None)
        return SV(alts).simp()
    if name in ("sort", "reverse", "extend", "insert", "pop", "remove"):
        if g is not True or not obj.is_plain() or has_sym(obj.plain()):
            raise Unsupported(f"list.{name} on symbolic list / under symbolic guard")
        lst = obj.plain()
        kw = {k: v for k, v in kwargs.items()}
        r = getattr(lst, name)(*[to_native(a) for a in args], **kw)
        obj.slots = [(True, v) for v in lst]
        return r
    raise Unsupported(f"list.{name}")


def land_e(a, b):
    return X.And(a, bexpr(b))


def sarr_method(interp, a, name, args, kwargs, g):
    if name == "copy":
        return wrap(np.array(a, dtype=object, copy=True), like=a)
    if name == "astype":
        t = np.dtype(args[0])
        if has_sym(a):
            # exact only when every symbolic entry is a bit (0/1 fits every integer / bool type)
            for v in a.reshape(-1):
                if is_sym(v) and not isinstance(v, SB):
                    lo, hi = SL.of(v).bounds() if isinstance(v, SL) else (None, None)
                    if lo is None or lo < 0 or hi > 127:
                        raise Unsupported("astype on a symbolic non-bit entry")
        r = np.array(a, dtype=object, copy=True).view(SArr)
        r.decl = t
        return r
    if name == "reshape":
        shp = args[0] if len(args) == 1 else tuple(args)
        return wrap(np.ndarray.reshape(a, to_native(shp)), like=a)
    if name == "transpose":
        return wrap(np.ndarray.transpose(a, *args), like=a)
    if name == "fill":
        store_index(interp, a, Ellipsis, args[0], g)
        return None
    if name == "any":
        return m_any(interp, a, *args, **kwargs)
    if name == "all":
        return m_all(interp, a, *args, **kwargs)
    if name == "sum":
        return m_sum(interp, a, *args, **kwargs)
    if name == "flatten":
        return wrap(np.array(a.reshape(-1), dtype=object, copy=True), like=a)
    if name == "tolist":
        if has_sym(a):
            raise Unsupported("tolist on symbolic array")
        return a.tolist()
    raise Unsupported(f"ndarray.{name} on a symbolic array")


# ------------------------------------------------------------------------------------ numpy models

def _decl_from_kwargs(args, kwargs, default=np.float64, pos=1):
    if "dtype" in kwargs:
        return np.dtype(kwargs["dtype"])
    if len(args) > pos and args[pos] is not None and not isinstance(args[pos], (int, tuple, list)):
        return np.dtype(args[pos])
    return np.dtype(default)


def _shape(s):
    s = to_native(s)
    if isinstance(s, (int, np.integer)):
        return (int(s),)
    return tuple(int(x) for x in s)


def m_zeros(interp, *args, **kwargs):
    shape = _shape(kwargs["shape"] if "shape" in kwargs else args[0])
    d = _decl_from_kwargs(args, kwargs)
    zero = False if d == np.bool_ else (0.0 if d.kind == "f" else 0)
    a = np.empty(shape, dtype=object)
    a[...] = zero
    return wrap(a, decl=d)


def m_ones(interp, *args, **kwargs):
    shape = _shape(kwargs["shape"] if "shape" in kwargs else args[0])
    d = _decl_from_kwargs(args, kwargs)
    one = True if d == np.bool_ else (1.0 if d.kind == "f" else 1)
    a = np.empty(shape, dtype=object)
    a[...] = one
    return wrap(a, decl=d)


def m_eye(interp, *args, **kwargs):
    n = int(args[0])
    d = _decl_from_kwargs(args, kwargs, pos=1 if len(args) < 3 else 3)
    if len(args) >= 2 and isinstance(args[1], (int, np.integer)):
        raise Unsupported("np.eye with M")
    a = np.empty((n, n), dtype=object)
    a[...] = 0.0 if d.kind == "f" else 0
    for i in range(n):
        a[i, i] = 1.0 if d.kind == "f" else 1
    return wrap(a, decl=d)


def m_array(interp, *args, **kwargs):
    src = args[0]
    d_given = kwargs.get("dtype", args[1] if len(args) > 1 else None)
    if isinstance(src, GList) and not src.is_plain():
        rows = []
        cols = None
        decl = None
        for gd, v in src.slots:
            if not isinstance(v, np.ndarray) or v.ndim != 1:
                raise Unsupported("np.array of a guarded list of non-vectors")
            cols = v.shape[0] if cols is None else cols
            if cols != v.shape[0]:
                raise Unsupported("ragged guarded rows")
            decl = decl_of(v) if decl is None else np.result_type(decl, decl_of(v))
            rows.append((gd, v))
        if d_given is not None:
            raise Unsupported("np.array(guarded list, dtype=...)")
        return GArr(rows, cols, decl)
    nat = to_native(src)
    if isinstance(nat, np.ndarray):
        if nat.dtype == object:
            r = np.array(nat, dtype=object, copy=True).view(SArr)
            r.decl = np.dtype(d_given) if d_given is not None else decl_of(nat)
            return r
        return sarr(np.array(nat, dtype=d_given), np.dtype(d_given) if d_given is not None else nat.dtype)
    if has_sym(nat):
        # nested lists / arrays with symbolic leaves
        decls = []
        _collect_decls(nat, decls)
        r = np.array(_objectify(nat), dtype=object)
        decl = np.dtype(d_given) if d_given is not None else (np.result_type(*decls) if decls else np.dtype(np.int64))
        return wrap(r, decl=decl)
    real = np.array(_objectify_native(nat), dtype=d_given) if d_given is not None else np.array(_objectify_native(nat))
    if real.dtype == object:
        raise Unsupported("np.array producing a ragged/object array")
    return sarr(real, real.dtype)


def _collect_decls(v, out):
    if isinstance(v, np.ndarray):
        d = decl_of(v)
        if d is not None:
            out.append(d)
    elif isinstance(v, (list, tuple)):
        for x in v:
            _collect_decls(x, out)


def _objectify(v):
    if isinstance(v, np.ndarray):
        return [_objectify(x) for x in v] if v.ndim > 0 else v.item()
    if isinstance(v, (list, tuple)):
        return [_objectify(x) for x in v]
    return v


def _objectify_native(v):
    """SArr with only concrete content -> typed native arrays, for np.array / np.block on concrete data"""
    if isinstance(v, np.ndarray) and v.dtype == object:
        d = decl_of(v)
        return v.astype(d if d is not None else np.int64)
    if isinstance(v, list):
        return [_objectify_native(x) for x in v]
    if isinstance(v, tuple):
        return tuple(_objectify_native(x) for x in v)
    return v


def m_concat_like(fn):
    def model(interp, *args, **kwargs):
        nat = [to_native(a) for a in args]
        arrs = []
        _collect_arrays(nat[0], arrs)
        decls = [decl_of(a) for a in arrs if decl_of(a) is not None]
        decl = np.result_type(*decls) if decls else None
        conv = _to_object_arrays(nat[0])
        res = fn(conv, *nat[1:], **kwargs)
        return wrap(res if res.dtype == object else sarr(res, res.dtype), decl=decl)
    return model


def _collect_arrays(v, out):
    if isinstance(v, np.ndarray):
        out.append(v)
    elif isinstance(v, (list, tuple)):
        for x in v:
            _collect_arrays(x, out)


def _to_object_arrays(v):
    if isinstance(v, np.ndarray):
        return v if v.dtype == object else sarr(v, v.dtype)
    if isinstance(v, (list, tuple)):
        return type(v)(_to_object_arrays(x) for x in v)
    return v


def _reduce_axis(a, axis, f):
    a = a if isinstance(a, np.ndarray) else np.array(to_native(a), dtype=object)
    if axis is None:
        return f(list(a.reshape(-1)))
    moved = np.moveaxis(a, axis, -1)
    out = np.empty(moved.shape[:-1], dtype=object)
    for idx in np.ndindex(*moved.shape[:-1]):
        out[idx] = f(list(moved[idx]))
    return out


def m_any(interp, a, axis=None, **kw):
    r = _reduce_axis(a, axis, lambda xs: lor(*xs))
    return wrap(r, decl=np.dtype(bool)) if isinstance(r, np.ndarray) else r


def m_all(interp, a, axis=None, **kw):
    r = _reduce_axis(a, axis, lambda xs: land(*xs))
    return wrap(r, decl=np.dtype(bool)) if isinstance(r, np.ndarray) else r


def _sum_list(xs):
    acc = 0
    for x in xs:
        acc = acc + x
    return acc


def m_sum(interp, a, axis=None, **kw):
    r = _reduce_axis(a, axis, _sum_list)
    return wrap(r, decl=np.dtype(np.int64)) if isinstance(r, np.ndarray) else r


def m_array_equal(interp, a, b):
    a = a if isinstance(a, np.ndarray) else np.array(to_native(a), dtype=object)
    b = b if isinstance(b, np.ndarray) else np.array(to_native(b), dtype=object)
    if a.shape != b.shape:
        return False
    return land(*[veq(x, y) for x, y in zip(a.reshape(-1), b.reshape(-1))])


def m_where(interp, cond, *rest):
    raise Unsupported("np.where on symbolic data")


def m_identity(interp, n, dtype=None):
    return m_eye(interp, n, dtype=dtype if dtype is not None else np.float64)


NP_MODELS = {
    np.zeros: m_zeros, np.ones: m_ones, np.eye: m_eye, np.identity: m_identity, np.array: m_array,
    np.concatenate: m_concat_like(np.concatenate), np.block: m_concat_like(np.block),
    np.hstack: m_concat_like(np.hstack), np.vstack: m_concat_like(np.vstack),
    np.any: m_any, np.all: m_all, np.sum: m_sum, np.array_equal: m_array_equal, np.where: m_where,
}


# ------------------------------------------------------------------------------------ builtins models

def b_len(interp, v):
    if isinstance(v, GList):
        return v.length()
    if isinstance(v, GArr):
        return v.nrows()
    if isinstance(v, SCirc):
        return v.gates.length()
    gl = getattr(type(v), "__len__", None)
    if isinstance(gl, types.FunctionType) and interp_is_repo(gl):
        return interp.call(gl, [v], {}, True)
    return len(v)


def b_range(interp, *args):
    if not any(is_sym(a) for a in args):
        return range(*[int(a) for a in args])
    if len(args) == 1:
        lo, hi, step = 0, args[0], 1
    elif len(args) == 2:
        lo, hi, step = args[0], args[1], 1
    else:
        lo, hi, step = args
    if is_sym(step) or step != 1:
        raise Unsupported("range with symbolic / non-unit step")
    lo_sv, hi_sv = SV.of(lo), SV.of(hi)
    lo_min = min(v for _, v in lo_sv.alts)
    hi_max = max(v for _, v in hi_sv.alts)
    slots = []
    for i in range(lo_min, hi_max):
        c = land(lo <= i, hi > i) if is_sym(lo) else (hi > i)
        slots.append((bexpr(c), i))
    return GList.guarded(slots)


def b_list(interp, v=()):
    if isinstance(v, GList):
        return v.copy()
    return GList.guarded(iter_values(interp, v, interp.cur_g))


def b_tuple(interp, v=()):
    items = iter_values(interp, v, interp.cur_g)
    if any(g is not True for g, _ in items):
        raise Unsupported("tuple of a list with symbolic membership")
    return tuple(x for _, x in items)


def b_all(interp, v):
    return mkbool(X.And(*[X.Implies(g, bexpr(x)) for g, x in iter_values(interp, v, interp.cur_g)]))


def b_any(interp, v):
    return mkbool(X.Or(*[X.And(g, bexpr(x)) for g, x in iter_values(interp, v, interp.cur_g)]))


def b_sum(interp, v, start=0):
    acc = start
    for g, x in iter_values(interp, v, interp.cur_g):
        if g is True:
            acc = acc + x
        else:
            acc = acc + merge(g, x, 0)
    return acc


def b_enumerate(interp, v, start=0):
    items = iter_values(interp, v, interp.cur_g)
    if all(g is True for g, _ in items):
        return OneShot(interp, [(True, (i + start, x)) for i, (_, x) in enumerate(items)], "enumerate")
    out = []
    for j, (g, x) in enumerate(items):
        pos = GList.guarded(items[:j]).length()
        out.append((g, (pos + start, x)))
    return OneShot(interp, out, "enumerate")


def b_zip(interp, *vs):
    cols = [iter_values(interp, v, interp.cur_g) for v in vs]
    if any(g is not True for c in cols for g, _ in c):
        raise Unsupported("zip over lists with symbolic membership")
    return OneShot(interp, [(True, t) for t in zip(*[[x for _, x in c] for c in cols])], "zip")


def b_map(interp, f, *vs):
    g0 = interp.cur_g
    cols = [iter_values(interp, v, g0) for v in vs]
    if len(cols) == 1:
        return OneShot(interp, [(g, interp.call(f, [x], {}, X.And(g0, g))) for g, x in cols[0]], "map")
    if any(g is not True for c in cols for g, _ in c):
        raise Unsupported("map over lists with symbolic membership")
    return OneShot(interp, [(True, interp.call(f, list(xs), {}, g0)) for xs in zip(*[[x for _, x in c] for c in cols])], "map")


def b_filter(interp, f, v):
    out = []
    g0 = interp.cur_g
    for g, x in iter_values(interp, v, g0):
        c = bexpr(interp.call(f, [x], {}, X.And(g0, g))) if f is not None else bexpr(x)
        if X.And(g, c) is not False:
            out.append((X.And(g, c), x))
    return OneShot(interp, out, "filter")


def b_reversed(interp, v):
    if isinstance(v, OneShot):
        raise Unsupported("reversed() of an iterator (TypeError in CPython)")
    items = iter_values(interp, v, interp.cur_g)
    return OneShot(interp, [(g, x) for g, x in reversed(items) if g is not False], "reversed")


_MISSING = object()


def b_next(interp, it, default=_MISSING):
    if isinstance(it, OneShot):
        r = it.take_one(interp.cur_g)
        if r is not None:
            return r[0]
        if default is _MISSING:
            raise Unsupported("next() on an exhausted iterator (StopIteration)")
        return default
    if has_sym(it):
        raise Unsupported("next() on a symbolic value")
    return next(it) if default is _MISSING else next(it, default)


def b_iter(interp, v):
    if isinstance(v, OneShot):
        return v
    if isinstance(v, GList) or (isinstance(v, np.ndarray) and v.dtype == object):
        return OneShot(interp, iter_values(interp, v, interp.cur_g), "iter")
    return iter(v)


def b_isinstance(interp, v, t):
    t = to_native(t)
    if isinstance(v, GList):
        return (list in t) if isinstance(t, tuple) else (t is list)
    if isinstance(v, SCirc):
        import qiskit
        ts = t if isinstance(t, tuple) else (t,)
        return any(x is qiskit.QuantumCircuit or (isinstance(x, type) and isinstance(v, x)) for x in ts)
    if isinstance(v, SB):
        if v.isbool:
            return t in (bool, int) or (isinstance(t, tuple) and (bool in t or int in t))
        return t is int or (isinstance(t, tuple) and int in t)
    if isinstance(v, (SL, SV)):
        raise Unsupported("isinstance on symbolic value")
    return isinstance(v, t)


def b_type(interp, v, *rest):
    if rest:
        raise Unsupported("three-argument type()")
    if isinstance(v, np.ndarray):
        return np.ndarray          # an SArr stands for a plain ndarray of its declared dtype
    if isinstance(v, GList):
        return list
    if isinstance(v, SB):
        return bool if v.isbool else int
    if isinstance(v, (SL, SV)):
        raise Unsupported("type() of a symbolic value")
    return type(v)


def b_int(interp, v=0, base=None):
    if base is not None:
        if is_sym(v):
            raise Unsupported("int(symbolic, base)")
        return int(v, base)
    if isinstance(v, SB):
        return mkbit(v.e)
    if is_sym(v):
        return v
    return int(v)


def b_bool(interp, v=False):
    if is_sym(v) or isinstance(v, GList):
        return mkbool(bexpr(v))
    return bool(v)


def b_min(interp, *vs, **kw):
    if len(vs) == 1:
        vs = [x for _, x in iter_values(interp, vs[0], interp.cur_g)]
    if not any(is_sym(v) for v in vs):
        return min(vs, **kw)
    acc = vs[0]
    for v in vs[1:]:
        acc = merge(bexpr(v < acc), v, acc)
    return acc


def b_max(interp, *vs, **kw):
    if len(vs) == 1:
        vs = [x for _, x in iter_values(interp, vs[0], interp.cur_g)]
    if not any(is_sym(v) for v in vs):
        return max(vs, **kw)
    acc = vs[0]
    for v in vs[1:]:
        acc = merge(bexpr(v > acc), v, acc)
    return acc


def b_sorted(interp, v, **kw):
    items = b_tuple(interp, v)
    if has_sym(items):
        raise Unsupported("sorted on symbolic data")
    return GList(sorted(items, **kw))


def b_str(interp, v=""):
    if has_sym(v):
        raise Unsupported("str of a symbolic value")
    return str(to_native(v))


def m_deepcopy(interp, v, memo=None):
    if isinstance(v, np.ndarray) and v.dtype == object:
        return wrap(np.array(v, dtype=object, copy=True), like=v)
    if has_sym(v):
        raise Unsupported("deepcopy of symbolic non-array")
    return _copy.deepcopy(v)


def m_product(interp, *its, repeat=1):
    return list(itertools.product(*[to_native(b_tuple(interp, i)) for i in its], repeat=repeat))


def m_quantum_circuit(interp, *args, **kw):
    if len(args) != 1 or kw or is_sym(args[0]):
        raise Unsupported("QuantumCircuit(...) form not modelled")
    return SCirc(int(args[0]))


BUILTIN_MODELS = {
    len: b_len, range: b_range, list: b_list, tuple: b_tuple, all: b_all, any: b_any, sum: b_sum, enumerate: b_enumerate,
    zip: b_zip, map: b_map, filter: b_filter, reversed: b_reversed, isinstance: b_isinstance, int: b_int, bool: b_bool,
    min: b_min, max: b_max, sorted: b_sorted, next: b_next, iter: b_iter, str: b_str, type: b_type, _copy.deepcopy: m_deepcopy, itertools.product: m_product,
}

USE_CIRCUIT_MODEL = [False]


def call_native(interp, fn, args, kwargs, g):
    if fn in NP_MODELS:
        return NP_MODELS[fn](interp, *args, **kwargs)
    if fn in BUILTIN_MODELS:
        return BUILTIN_MODELS[fn](interp, *args, **kwargs)
    if USE_CIRCUIT_MODEL[0]:
        try:
            import qiskit
            if fn is qiskit.QuantumCircuit:
                return m_quantum_circuit(interp, *args, **kwargs)
        except ImportError:
            pass
    if isinstance(fn, type) and issubclass(fn, BaseException):
        return fn(*[a if not has_sym(a) else "<sym>" for a in args])
    if getattr(fn, "_hv_symbolic_ok", False) or getattr(type(getattr(fn, "__self__", None)), "_hv_symbolic_ok", False):
        return fn(*args, **kwargs)            # contract stub of a dependency: accepts interpreter values as they are
    nargs = [to_native(a) for a in args]
    nkw = {k: to_native(v) for k, v in kwargs.items()}
    if has_sym(nargs) or has_sym(nkw):
        raise Unsupported(f"native call {getattr(fn, '__qualname__', fn)} with symbolic arguments")
    if g is not True and getattr(fn, "__name__", "") in ("append", "extend", "add", "update", "pop", "remove", "sort", "reverse", "insert", "clear", "fill"):
        raise Unsupported(f"mutating native call {fn.__name__} under a symbolic guard")
    nargs = [_objectify_native(a) for a in nargs]
    nkw = {k: _objectify_native(v) for k, v in nkw.items()}
    res = fn(*nargs, **nkw)
    if isinstance(res, np.ndarray) and res.dtype != object and _from_numpy(fn):
        return sarr(res, res.dtype)
    if isinstance(res, list) and type(res) is list:
        return GList(res)
    return res


def _from_numpy(fn):
    mod = getattr(fn, "__module__", "") or ""
    return mod.startswith("numpy") or isinstance(fn, np.ufunc) or type(fn).__name__ == "_ArrayFunctionDispatcher"
