"""Toy functions exercising Python / numpy semantics where a naive symbolic model goes wrong.  They are interpreted by pyvc on concrete (and, where marked,
symbolic) inputs on every run of C18; the interpreter must either agree with CPython or refuse (Unsupported) - never produce another value.
(The module poses as a repository module so that the interpreter reads its source instead of calling it natively.)"""
import numpy as np


def zip_twice(a, b):
    z = zip(a, b)
    x = list(z)
    y = list(z)
    return len(x), len(y)


def map_truthy(a):
    m = map(abs, a)
    return 1 if m else 0


def filter_empty_truthy(a):
    f = filter(None, a)
    if f:
        return "truthy"
    return "falsy"


def enumerate_len(a):
    e = enumerate(a)
    return len(e)


def reversed_twice(a):
    r = reversed(a)
    s = sum(r)
    t = sum(r)
    return s, t


def generator_twice(a):
    gen = (x * 2 for x in a)
    first = list(gen)
    second = list(gen)
    return first, second


def next_then_rest(a):
    it = (x for x in a if x != 0)
    first = next(it, None)
    if first is None:
        return False
    return any(p != first for p in it)


def late_binding():
    fs = []
    for i in range(3):
        fs.append(lambda: i)
    return [f() for f in fs]


def late_binding_rebound(k):
    f = lambda x: x + k
    k = k + 10
    return f(1)


def closure_default_ok():
    fs = []
    for i in range(3):
        fs.append(lambda i=i: i)
    return [f() for f in fs]


def int8_scale(A):
    return A * 120 + A * 120


def int8_shift_accumulate(A):
    codes = A[0] * 0
    for q in range(A.shape[0]):
        codes = 4 * codes + ((A[q] << 1) | A[q])
    return codes


def bool_array_sum(A, B):
    return (A == 1) + (B == 1)


def bool_scalar_sum(A):
    return (A[0, 0] == 1) + (A[0, 1] == 1)


def fancy_diag(n):
    form = np.zeros((2 * n, 2 * n), dtype=np.int8)
    d = np.arange(n)
    form[d, d + n] = 1
    form[d + n, d] = 1
    return form


for _f in list(globals().values()):
    if callable(_f) and getattr(_f, "__module__", None) == __name__:
        _f.__module__ = "htstabilizer.__hv_semantics_cases__"
