"""Boolean/linear-integer expression DAG with hash-consing, plus back ends:
   * evaluate under a concrete assignment (used for counterexample replay and interpreter self-validation)
   * ANF (algebraic normal form over GF(2), canonical -> decides hypothesis-free identities)
   * z3 (python API) and cvc5 (SMT-LIB2 via /usr/bin/cvc5) for everything else

Constants are the Python objects True / False (never E nodes).
"""
from __future__ import annotations
import subprocess, tempfile, os, time

_TABLE: dict = {}
_COUNTER = [0]


class E:
    __slots__ = ("op", "args", "uid")

    def __init__(self, op, args, uid):
        self.op, self.args, self.uid = op, args, uid

    def __repr__(self):
        return f"E#{self.uid}:{self.op}"

    def __bool__(self):
        raise TypeError("symbolic expression used as a concrete bool (checker bug)")

    def __hash__(self):
        return self.uid

    def __eq__(self, other):
        return self is other


def _key(a):
    return a.uid if isinstance(a, E) else a


def _mk(op, args):
    k = (op,) + tuple(_key(a) if not isinstance(a, tuple) else a for a in args) if op != "cmp" else (op,) + args[2]
    e = _TABLE.get(k)
    if e is None:
        _COUNTER[0] += 1
        e = E(op, args, _COUNTER[0])
        _TABLE[k] = e
    return e


def reset():
    _TABLE.clear()


def var(name: str):
    return _mk("var", (name,))


def is_const(a):
    return a is True or a is False


def _b(a):
    """normalise python/numpy truthy constants to True/False, leave E."""
    if isinstance(a, E):
        return a
    return bool(a)


def Not(a):
    a = _b(a)
    if a is True:
        return False
    if a is False:
        return True
    if a.op == "not":
        return a.args[0]
    return _mk("not", (a,))


def And(*xs):
    out = {}
    stack = list(reversed(xs))
    while stack:
        x = _b(stack.pop())
        if x is False:
            return False
        if x is True:
            continue
        if x.op == "and":
            stack.extend(reversed(x.args))
            continue
        out[x.uid] = x
    changed = True
    while changed:
        changed = False
        for x in list(out.values()):
            if x.op == "not":
                y = x.args[0]
                if y.uid in out:
                    return False
                if y.op == "and":
                    # unit propagation into a negated conjunction
                    rest = []
                    sat = False
                    for z in y.args:
                        if z.uid in out:
                            continue                      # z holds: drop it from the disjunction of negations
                        if z.op == "not" and z.args[0].uid in out:
                            sat = True                    # not z holds: clause satisfied
                            break
                        neg = _TABLE.get(("not", z.uid))
                        if neg is not None and neg.uid in out:
                            sat = True
                            break
                        rest.append(z)
                    if sat:
                        del out[x.uid]
                        changed = True
                    elif not rest:
                        return False
                    elif len(rest) < len(y.args):
                        del out[x.uid]
                        nx = Not(And(*rest))
                        if nx is False:
                            return False
                        if nx is not True:
                            if nx.op == "and":
                                for w in nx.args:
                                    out[w.uid] = w
                            else:
                                out[nx.uid] = nx
                        changed = True
    if not out:
        return True
    if len(out) == 1:
        return next(iter(out.values()))
    return _mk("and", tuple(out[k] for k in sorted(out)))


def Or(*xs):
    return Not(And(*[Not(x) for x in xs]))


def Xor(*xs):
    par = False
    out = {}
    stack = list(xs)
    while stack:
        x = _b(stack.pop())
        if x is True:
            par = not par
            continue
        if x is False:
            continue
        if x.op == "not":
            par = not par
            x = x.args[0]
        if x.op == "xor":
            stack.extend(x.args)
            continue
        if x.uid in out:
            del out[x.uid]
        else:
            out[x.uid] = x
    if not out:
        return par
    if len(out) == 1:
        r = next(iter(out.values()))
    else:
        r = _mk("xor", tuple(out[k] for k in sorted(out)))
    return Not(r) if par else r


def Iff(a, b):
    return Not(Xor(a, b))


def Implies(a, b):
    return Or(Not(a), b)


def Ite(c, a, b):
    c, a, b = _b(c), _b(a), _b(b)
    if c is True:
        return a
    if c is False:
        return b
    if a is b:
        return a
    if a is True and b is False:
        return c
    if a is False and b is True:
        return Not(c)
    if a is True:
        return Or(c, b)
    if a is False:
        return And(Not(c), b)
    if b is True:
        return Or(Not(c), a)
    if b is False:
        return And(c, a)
    if c.op == "not":
        return Ite(c.args[0], b, a)
    if a is c:
        return Or(c, b)
    if b is c:
        return And(c, a)
    return _mk("ite", (c, a, b))


def Cmp(op, const, terms):
    """(const + sum coef*[bit]) op 0, op in '<=', '=='. terms: iterable of (coef:int, bit: E|bool)."""
    acc = {}
    for coef, bit in terms:
        bit = _b(bit)
        if coef == 0 or bit is False:
            continue
        if bit is True:
            const += coef
            continue
        if bit.op == "not":          # coef*(1-x)
            const += coef
            coef, bit = -coef, bit.args[0]
        prev = acc.get(bit.uid)
        c2 = coef + (prev[0] if prev else 0)
        if c2 == 0:
            acc.pop(bit.uid, None)
        else:
            acc[bit.uid] = (c2, bit)
    lo = const + sum(c for c, _ in acc.values() if c < 0)
    hi = const + sum(c for c, _ in acc.values() if c > 0)
    if op == "<=":
        if hi <= 0:
            return True
        if lo > 0:
            return False
    elif op == "==":
        if lo > 0 or hi < 0:
            return False
        if not acc:
            return const == 0
        if len(acc) == 1:
            (c, b), = acc.values()
            if const == 0:
                return Not(b)
            if const + c == 0:
                return b
            return False
    else:
        raise ValueError(op)
    items = tuple(sorted(((c, b) for c, b in acc.values()), key=lambda t: t[1].uid))
    key = (op, const, tuple((c, b.uid) for c, b in items))
    return _mk("cmp", (op, (const, items), key))


# ---- traversal -----------------------------------------------------------------------------------

def children(e: E):
    if e.op == "var":
        return ()
    if e.op == "cmp":
        return tuple(b for _, b in e.args[1][1])
    return e.args


def topo(roots):
    """nodes reachable from roots, children before parents (iterative)."""
    seen = set()
    order = []
    stack = [(r, False) for r in roots if isinstance(r, E)]
    while stack:
        node, done = stack.pop()
        if done:
            order.append(node)
            continue
        if node.uid in seen:
            continue
        seen.add(node.uid)
        stack.append((node, True))
        for c in children(node):
            if c.uid not in seen:
                stack.append((c, False))
    return order


def variables(roots):
    return sorted({n.args[0] for n in topo(roots) if n.op == "var"})


def size(roots):
    return len(topo(roots))


def evaluate(roots, assignment, default=False):
    """Evaluate roots (list of E|bool) under {var name: bool}."""
    val = {}
    for n in topo(roots):
        op = n.op
        if op == "var":
            v = bool(assignment.get(n.args[0], default))
        elif op == "not":
            v = not val[n.args[0].uid]
        elif op == "and":
            v = all(val[a.uid] for a in n.args)
        elif op == "xor":
            v = False
            for a in n.args:
                v ^= val[a.uid]
        elif op == "ite":
            v = val[n.args[1].uid] if val[n.args[0].uid] else val[n.args[2].uid]
        elif op == "cmp":
            cop, (const, items), _ = n.args
            t = const + sum(c for c, b in items if val[b.uid])
            v = (t <= 0) if cop == "<=" else (t == 0)
        else:
            raise ValueError(op)
        val[n.uid] = v
    return [r if not isinstance(r, E) else val[r.uid] for r in roots]


# ---- ANF back end ----------------------------------------------------------------------------------

class AnfOverflow(Exception):
    pass


def anf(roots, cap=200_000, subst=None):
    """Canonical ANF (set of monomials, a monomial = bitmask of variable indices) of each root.
    subst: {var name: bool} substituted first.  Raises AnfOverflow beyond `cap` monomials, ValueError on cmp nodes."""
    subst = subst or {}
    vidx = {}
    ONE = frozenset([0])
    ZERO = frozenset()
    val = {}

    def mul(p, q):
        if len(p) * len(q) > cap * 4:
            raise AnfOverflow()
        acc = set()
        for a in p:
            for b in q:
                m = a | b
                if m in acc:
                    acc.remove(m)
                else:
                    acc.add(m)
        if len(acc) > cap:
            raise AnfOverflow()
        return frozenset(acc)

    for n in topo(roots):
        op = n.op
        if op == "var":
            nm = n.args[0]
            if nm in subst:
                v = ONE if subst[nm] else ZERO
            else:
                i = vidx.setdefault(nm, len(vidx))
                v = frozenset([1 << i])
        elif op == "not":
            v = val[n.args[0].uid] ^ ONE
        elif op == "xor":
            v = ZERO
            for a in n.args:
                v = v ^ val[a.uid]
        elif op == "and":
            v = ONE
            for a in n.args:
                v = mul(v, val[a.uid])
                if not v:
                    break
        elif op == "ite":
            c, a, b = (val[x.uid] for x in n.args)
            v = mul(c, a ^ b) ^ b
        else:
            raise ValueError("ANF: arithmetic node")
        val[n.uid] = v
    out = []
    for r in roots:
        if r is True:
            out.append(ONE)
        elif r is False:
            out.append(ZERO)
        else:
            out.append(val[r.uid])
    return out, vidx


ANF_ONE = frozenset([0])
ANF_ZERO = frozenset()


def anf_witness(poly, vidx):
    """An assignment making a non-zero polynomial evaluate to 1: choose a minimal monomial, set exactly its variables."""
    if not poly:
        return None
    m = min(poly, key=lambda t: bin(t).count("1"))
    # with exactly vars(m) true, monomials that are subsets of m evaluate to 1; need odd count -> search small supersets
    names = {i: nm for nm, i in vidx.items()}
    cand = sorted(poly, key=lambda t: bin(t).count("1"))
    for m in cand[:2000]:
        cnt = sum(1 for t in poly if t & ~m == 0)
        if cnt & 1:
            return {names[i]: bool((m >> i) & 1) for i in names}
    return None


# ---- z3 back end -----------------------------------------------------------------------------------

def to_z3(roots, memo=None):
    import z3
    memo = {} if memo is None else memo
    for n in topo(roots):
        if n.uid in memo:
            continue
        op = n.op
        if op == "var":
            v = z3.Bool(n.args[0])
        elif op == "not":
            v = z3.Not(memo[n.args[0].uid])
        elif op == "and":
            v = z3.And(*[memo[a.uid] for a in n.args])
        elif op == "xor":
            it = [memo[a.uid] for a in n.args]
            v = it[0]
            for a in it[1:]:
                v = z3.Xor(v, a)
        elif op == "ite":
            v = z3.If(*[memo[a.uid] for a in n.args])
        elif op == "cmp":
            cop, (const, items), _ = n.args
            s = z3.IntVal(const)
            if items:
                s = s + z3.Sum([z3.If(memo[b.uid], c, 0) for c, b in items])
            v = (s <= 0) if cop == "<=" else (s == 0)
        memo[n.uid] = v
    return [z3.BoolVal(r) if not isinstance(r, E) else memo[r.uid] for r in roots]


class Verdict:
    __slots__ = ("status", "model", "backend", "time", "info")

    def __init__(self, status, model=None, backend="", time=0.0, info=""):
        self.status, self.model, self.backend, self.time, self.info = status, model, backend, time, info

    def __repr__(self):
        return f"<{self.status} via {self.backend} {self.time:.3f}s {self.info}>"


def prove(hyps, goal, timeout_s=20.0, use_cvc5=True, try_anf=True):
    """Decide  /\\hyps => goal  for all assignments.  Returns Verdict(status in proved/refuted/unknown)."""
    t0 = time.time()
    goal = _b(goal)
    hyps = [_b(h) for h in hyps]
    if goal is True or any(h is False for h in hyps):
        return Verdict("proved", None, "fold", 0.0)
    hyps = [h for h in hyps if h is not True]
    if try_anf:
        # literal hypotheses are substituted, others prevent the ANF route
        subst = {}
        lit_only = True
        for h in hyps:
            if h.op == "var":
                subst[h.args[0]] = True
            elif h.op == "not" and h.args[0].op == "var":
                subst[h.args[0].args[0]] = False
            else:
                lit_only = False
                break
        if lit_only and goal is not False and not any(n.op == "cmp" for n in topo([goal])):
            try:
                (p,), vidx = anf([goal], subst=subst)
                if p == ANF_ONE:
                    return Verdict("proved", None, "anf", time.time() - t0)
                w = anf_witness(p ^ ANF_ONE, vidx)
                if w is not None:
                    w.update(subst)
                    return Verdict("refuted", w, "anf", time.time() - t0)
            except (AnfOverflow, ValueError):
                pass
    import z3
    s = z3.Solver()
    s.set("timeout", int(timeout_s * 1000))
    memo = {}
    zs = to_z3(hyps + [goal], memo)
    for h in zs[:-1]:
        s.add(h)
    s.add(z3.Not(zs[-1]))
    r = s.check()
    if r == z3.unsat:
        return Verdict("proved", None, "z3", time.time() - t0)
    if r == z3.sat:
        m = s.model()
        asg = {}
        for d in m.decls():
            v = m[d]
            if z3.is_bool(v):
                asg[d.name()] = z3.is_true(v)
        return Verdict("refuted", asg, "z3", time.time() - t0)
    if use_cvc5:
        v = _cvc5(s.to_smt2(), timeout_s)
        if v is not None:
            v.time = time.time() - t0
            return v
    return Verdict("unknown", None, "z3", time.time() - t0, s.reason_unknown())


def _cvc5(smt2, timeout_s):
    exe = "/usr/bin/cvc5"
    if not os.path.exists(exe):
        return None
    with tempfile.NamedTemporaryFile("w", suffix=".smt2", delete=False) as f:
        f.write("(set-option :produce-models true)\n(set-logic QF_LIA)\n" + smt2.replace("(check-sat)", "(check-sat)\n(get-model)"))
        path = f.name
    try:
        out = subprocess.run([exe, f"--tlimit={int(timeout_s * 1000)}", path], capture_output=True, text=True,
                             timeout=timeout_s + 5).stdout
    except Exception:
        return None
    finally:
        os.unlink(path)
    first = out.strip().split("\n", 1)[0] if out.strip() else ""
    if first == "unsat":
        return Verdict("proved", None, "cvc5")
    if first == "sat":
        asg = {}
        import re
        for m in re.finditer(r"\(define-fun\s+(\S+)\s+\(\)\s+Bool\s+(true|false)\)", out):
            asg[m.group(1).strip("|")] = m.group(2) == "true"
        return Verdict("refuted", asg, "cvc5")
    return None
