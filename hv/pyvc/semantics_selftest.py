"""Differential self-test of the interpreter on semantic corner cases (hv/pyvc/semantics_cases.py): agree with CPython or refuse."""
from __future__ import annotations
import copy
import numpy as np
from . import interp as I, sym as S, expr as X, semantics_cases as SC
from .sym import Unsupported


def _same(a, b):
    if isinstance(a, np.ndarray) or isinstance(b, np.ndarray):
        a2 = np.asarray(S.concretize(a, {}) if isinstance(a, np.ndarray) and a.dtype == object else a)
        return a2.shape == np.asarray(b).shape and np.array_equal(a2.astype(np.int64), np.asarray(b).astype(np.int64))
    if isinstance(a, (list, tuple)) and isinstance(b, (list, tuple)):
        return len(a) == len(b) and all(_same(x, y) for x, y in zip(a, b))
    if isinstance(a, S.GList):
        return _same(a.plain(), b)
    return type(b)(a) == b if isinstance(b, (bool, int, str)) else a == b


def _int8(rows):
    return np.array(rows, dtype=np.int8)


def cases():
    A = _int8([[1, 0, 1], [1, 1, 0], [0, 1, 1], [1, 1, 1]])
    concrete = [
        (SC.zip_twice, ([1, 2, 3], [4, 5, 6])), (SC.map_truthy, ([],)), (SC.filter_empty_truthy, ([0, 0],)), (SC.enumerate_len, ([1, 2],)),
        (SC.reversed_twice, ([1, 2, 3],)), (SC.generator_twice, ([1, 2],)), (SC.next_then_rest, ([0, 2, 2, 0],)), (SC.next_then_rest, ([0, 2, 3],)),
        (SC.next_then_rest, ([0, 0],)), (SC.late_binding, ()), (SC.late_binding_rebound, (5,)), (SC.closure_default_ok, ()), (SC.int8_scale, (A,)),
        (SC.int8_shift_accumulate, (A,)), (SC.bool_array_sum, (A, A.T.copy().T)), (SC.bool_scalar_sum, (A,)), (SC.fancy_diag, (3,)),
    ]
    symbolic_must_refuse = [
        (SC.int8_scale, lambda: (S.fresh_bits("a", (2, 2)),)),
        (SC.int8_shift_accumulate, lambda: (S.fresh_bits("a", (5, 3)),)),
        (SC.bool_array_sum, lambda: (S.fresh_bits("a", (2, 2)), S.fresh_bits("b", (2, 2)))),
        (SC.bool_scalar_sum, lambda: (S.fresh_bits("a", (1, 2)),)),
    ]
    return concrete, symbolic_must_refuse


def run():
    """returns (n_agree, n_refused, problems)"""
    concrete, symbolic = cases()
    agree = refused = 0
    problems = []
    for fn, args in concrete:
        try:
            want = fn(*copy.deepcopy(args))
            want_exc = None
        except Exception as e:
            want, want_exc = None, type(e).__name__
        X.reset()
        it = I.Interp()
        try:
            got = it.run(fn, list(copy.deepcopy(args)))
        except Unsupported:
            refused += 1
            continue
        except Exception as e:
            if want_exc == type(e).__name__:
                agree += 1
            else:
                problems.append(f"{fn.__name__}: interpreter raised {type(e).__name__}: {e}; CPython {'raised ' + want_exc if want_exc else 'returned ' + repr(want)}")
            continue
        if it.raised:
            if want_exc is not None and all(r.etype == want_exc for r in it.raised):
                agree += 1
            elif want_exc is None:
                problems.append(f"{fn.__name__}: interpreter says the function raises {[r.etype for r in it.raised]}, CPython returned {want!r}")
            else:
                problems.append(f"{fn.__name__}: interpreter raises {[r.etype for r in it.raised]}, CPython raised {want_exc}")
            continue
        if want_exc is not None:
            problems.append(f"{fn.__name__}: CPython raised {want_exc}, interpreter returned {got!r}")
        elif _same(got, want):
            agree += 1
        else:
            problems.append(f"{fn.__name__}: interpreter returned {got!r}, CPython returned {want!r}")
    for fn, mk in symbolic:
        X.reset()
        it = I.Interp()
        try:
            it.run(fn, list(mk()))
            problems.append(f"{fn.__name__}: executed on symbolic fixed-width / boolean data although numpy's wrap-around or logical semantics are not modelled")
        except Unsupported:
            refused += 1
    return agree, refused, problems
