"""Guarded symbolic interpreter over the repository's Python AST.

The only program text interpreted is the repository's own source, located with inspect at run time.
Control flow on symbolic conditions executes both arms and merges (ite) at the join; heap objects (arrays,
lists, instances) are single-state and written under the full path guard.  See DESIGN.md 2.1 / 2.3.
"""
from __future__ import annotations
import ast, builtins, copy as _copy, inspect, itertools, operator, textwrap, types
import numpy as np
from . import expr as X
from .expr import E
from . import sym as S
from .sym import SB, SL, SV, GList, SArr, Unsupported, merge, bexpr, mkbool, mkbit, lnot, land, lor, veq, has_sym, is_sym


class Flow:
    """how a statement / block can complete, as conditions relative to its start:
       normal: E|bool; brk, cnt: [(cond, env snapshot)]; ret, exc: E|bool"""
    __slots__ = ("normal", "brk", "cnt", "ret", "exc")

    def __init__(self, normal=True, brk=(), cnt=(), ret=False, exc=False):
        self.normal, self.brk, self.cnt, self.ret, self.exc = normal, list(brk), list(cnt), ret, exc


NORMAL = Flow()
UNDEF = object()


class Closure:
    """function defined inside interpreted code (def / lambda)"""

    def __init__(self, interp, node, env_chain, glob, name="<lambda>", frame=None):
        self.interp, self.node, self.env_chain, self.glob, self.name = interp, node, env_chain, glob, name
        # CPython closures are LATE binding (a free variable is looked up when the closure runs); the model captured the environment of the definition.
        # The two agree as long as no free variable is rebound between definition and call - that is checked at every call (else: Unsupported).
        self.frame = frame
        params = {a.arg for a in node.args.posonlyargs + node.args.args + node.args.kwonlyargs} | ({node.args.vararg.arg} if node.args.vararg else set()) | \
            ({node.args.kwarg.arg} if node.args.kwarg else set())
        body = node.body if isinstance(node.body, list) else [node.body]
        loads, stores = set(), set()
        for b in body:
            for n in ast.walk(b):
                if isinstance(n, ast.Name):
                    (loads if isinstance(n.ctx, ast.Load) else stores).add(n.id)
        self.free = sorted(n for n in loads - params - stores if env_chain and n in env_chain[0])
        self.snapshot = {n: env_chain[0][n] for n in self.free}

    def check_late_binding(self):
        if self.frame is None:
            return
        for n in self.free:
            if self.frame.env.get(n, self) is not self.snapshot[n]:
                raise Unsupported(f"closure {self.name} reads `{n}`, which was rebound after the closure was created (late binding not modelled)")

    def __call__(self, *args, **kwargs):      # native callers (sorted key=..., filter) - only with concrete data
        return self.interp.call_closure(self, list(args), kwargs, True)


class Frame:
    def __init__(self, env, glob, chain=(), fname="?"):
        self.env = env
        self.glob = glob
        self.chain = chain          # enclosing function envs (closures)
        self.rets = []              # [(full guard, value)]
        self.fname = fname


class Raised:
    __slots__ = ("guard", "etype", "msg", "where", "native")

    def __init__(self, guard, etype, msg, where, native=False):
        self.guard, self.etype, self.msg, self.where = guard, etype, msg, where
        self.native = native        # True: a Python exception escaped from a concrete operation inside the interpreter (program error OR modelling gap)


def _is_repo_function(fn):
    mod = getattr(fn, "__module__", None) or ""
    return mod.startswith("htstabilizer") or mod.startswith("src.htstabilizer")


_SRC_CACHE = {}


def func_ast(fn):
    """(ast.FunctionDef, source text) of a repository function, read from the working tree now."""
    key = getattr(fn, "__code__", fn)
    if key in _SRC_CACHE:
        return _SRC_CACHE[key]
    src = textwrap.dedent(inspect.getsource(fn))
    tree = ast.parse(src)
    node = tree.body[0]
    if not isinstance(node, (ast.FunctionDef,)):
        raise Unsupported(f"cannot interpret {fn}")
    _SRC_CACHE[key] = (node, src)
    return node, src


class Interp:
    def __init__(self, modular=None, loop_bound=64, max_alts=4096):
        self.modular = modular or {}        # {function object: applier(interp, args, kwargs, g)}
        self.raised: list[Raised] = []
        self.side = []                      # [(name, hyps-free goal E|bool)] side obligations (unwinding, callee pre, ranges)
        self.hyps = []                      # assumptions introduced by modular calls (callee postconditions)
        self.loop_bound = loop_bound
        self.writes = []                    # ids of parameter-reachable arrays written (frame conditions)
        self.frozen = {}                    # id(array) -> name, arrays that must not be written
        self.frame_violations = []          # [(guard, name)]
        self.stats = {"stmts": 0, "calls": 0}
        self.fresh = itertools.count()
        self._feas_cache = {}
        self.cur_g = True                   # path condition of the statement / call being evaluated (consulted by models of stateful values: one-shot iterators)
        self.name_overrides = {}            # {name: object} consulted before module globals and applied to `from x import name` (contract stubs of dependencies)
        self.auto_stub = None               # optional callable(fn, args, kwargs) -> value for repository callees without an explicit contract stub

    # =========================================================================================== API
    def run(self, fn, args, kwargs=None, guard=True):
        """Interpret repository function `fn` on (possibly symbolic) arguments. Returns the (merged) result."""
        return self.call(fn, list(args), dict(kwargs or {}), guard)

    def run_loop_body(self, fn, ordinal, env, guard=True):
        """Execute ONE iteration of the `ordinal`-th loop (source order, outermost first) of repository function `fn`
        from the given environment (loop cut).  Returns (env after, Flow, loop condition node evaluated before)."""
        node, _ = func_ast(fn)
        loops = [n for n in ast.walk(node) if isinstance(n, (ast.While, ast.For))]
        loops.sort(key=lambda n: (n.lineno, n.col_offset))
        if ordinal >= len(loops):
            raise Unsupported(f"structure drift: {fn.__qualname__} has no loop #{ordinal}")
        loop = loops[ordinal]
        fr = Frame(dict(env), fn.__globals__, fname=fn.__qualname__)
        cond = bexpr(self.eval(loop.test, fr, guard)) if isinstance(loop, ast.While) else True
        fr.env = self.refine(loop.test, fr.env, fr, True) if isinstance(loop, ast.While) else fr.env
        flow = self.block(loop.body, fr, X.And(guard, cond))
        return fr.env, flow, cond, loop

    def freeze(self, name, arr):
        """frame condition: `arr` (a parameter-reachable array) must not be written"""
        base = arr
        while isinstance(base, np.ndarray) and base.base is not None:
            base = base.base
        self.frozen[id(base)] = name

    def feasible(self, guard, timeout_ms=2000):
        """False only if guard is PROVED unsatisfiable together with the current hypotheses (z3); True otherwise."""
        if guard is False:
            return False
        if guard is True:
            return True
        k = guard.uid
        c = self._feas_cache.get(k)
        if c is not None:
            return c
        import z3
        s = z3.Solver()
        s.set("timeout", timeout_ms)
        zs = X.to_z3(list(self.hyps) + [guard])
        for z in zs:
            s.add(z)
        self.stats["feasibility_queries"] = self.stats.get("feasibility_queries", 0) + 1
        r = s.check() != z3.unsat
        self._feas_cache[k] = r
        return r

    def raised_guard(self, *etypes):
        """condition under which the top-level call raised (one of) the given exception type names"""
        return X.Or(*[r.guard for r in self.raised if not etypes or r.etype in etypes])

    # ========================================================================================= calls
    def call(self, fn, args, kwargs, g):
        self.stats["calls"] += 1
        if isinstance(fn, Closure):
            return self.call_closure(fn, args, kwargs, g)
        if fn in self.modular:
            return self.modular[fn](self, args, kwargs, g)
        if isinstance(fn, types.MethodType):
            if fn.__func__ in self.modular:
                return self.modular[fn.__func__](self, [fn.__self__] + args, kwargs, g)
            if _is_repo_function(fn.__func__):
                return self.call_repo(fn.__func__, [fn.__self__] + args, kwargs, g)
        if isinstance(fn, types.FunctionType) and _is_repo_function(fn):
            if self.auto_stub is not None and self.stats["calls"] > 1:
                return self.auto_stub(fn, args, kwargs)
            return self.call_repo(fn, args, kwargs, g)
        if isinstance(fn, type) and _is_repo_function(fn) and not issubclass(fn, BaseException):
            import enum
            if issubclass(fn, enum.Enum):
                return fn(*args, **kwargs)
            obj = fn.__new__(fn)
            init = fn.__init__
            if isinstance(init, types.FunctionType):
                self.call_repo(init, [obj] + args, kwargs, g)
            return obj
        from . import models
        prev, self.cur_g = self.cur_g, g
        try:
            return models.call_native(self, fn, args, kwargs, g)
        finally:
            self.cur_g = prev

    def bind(self, node: ast.FunctionDef | ast.Lambda, defaults_env, args, kwargs, fname):
        a = node.args
        params = [p.arg for p in a.posonlyargs + a.args]
        env = {}
        if len(args) > len(params) and a.vararg is None:
            raise TypeError(f"{fname}: too many positional arguments")
        for p, v in zip(params, args):
            env[p] = v
        if a.vararg is not None:
            env[a.vararg.arg] = tuple(args[len(params):])
        for k, v in kwargs.items():
            if k in env:
                raise TypeError(f"{fname}: multiple values for {k}")
            env[k] = v
        # defaults
        defaults = a.defaults
        for p, d in zip(params[len(params) - len(defaults):], defaults):
            if p not in env:
                env[p] = defaults_env(d)
        for p, d in zip(a.kwonlyargs, a.kw_defaults):
            if p.arg not in env and d is not None:
                env[p.arg] = defaults_env(d)
        for p in params:
            if p not in env:
                raise TypeError(f"{fname}: missing argument {p}")
        return env

    def call_repo(self, fn, args, kwargs, g):
        node, _ = func_ast(fn)
        glob = fn.__globals__
        if isinstance(node, ast.FunctionDef) and node.decorator_list:
            decs = [ast.unparse(d) for d in node.decorator_list]
            if not all(d in ("staticmethod", "classmethod", "abc.abstractmethod") for d in decs):
                raise Unsupported(f"decorated function {fn.__qualname__}: {decs}")
        tmp = Frame({}, glob, fname=fn.__qualname__)
        env = self.bind(node, lambda d: self.eval(d, tmp, True), args, kwargs, fn.__qualname__)
        fr = Frame(env, glob, fname=fn.__qualname__)
        return self.run_body(node.body, fr, g)

    def call_closure(self, c: Closure, args, kwargs, g):
        c.check_late_binding()
        tmp = Frame({}, c.glob, c.env_chain)
        env = self.bind(c.node, lambda d: self.eval(d, tmp, True), args, kwargs, c.name)
        fr = Frame(env, c.glob, c.env_chain, fname=c.name)
        if isinstance(c.node, ast.Lambda):
            return self.eval(c.node.body, fr, g)
        return self.run_body(c.node.body, fr, g)

    def run_body(self, body, fr, g):
        flow = self.block(body, fr, g)
        rets = list(fr.rets)
        if flow.normal is not False:
            rets.append((X.And(g, flow.normal), None))
        if not rets:
            return None
        acc = rets[-1][1]
        for gd, v in reversed(rets[:-1]):
            acc = merge(gd, v, acc)
        return acc

    # ==================================================================================== statements
    # Discipline: fr.env describes the state on the paths that are still executing normally ("alive").
    # break / continue capture a snapshot of the environment; return / raise need none.  Heap objects are
    # single-state and are written under the full path guard g (which includes aliveness).
    def block(self, stmts, fr, g) -> Flow:
        alive = True
        brk, cnt = [], []
        ret = exc = False
        for st in stmts:
            if alive is False:
                break
            f = self.stmt(st, fr, X.And(g, alive))
            brk += [(X.And(alive, c), e) for c, e in f.brk if X.And(alive, c) is not False]
            cnt += [(X.And(alive, c), e) for c, e in f.cnt if X.And(alive, c) is not False]
            ret = X.Or(ret, X.And(alive, f.ret))
            exc = X.Or(exc, X.And(alive, f.exc))
            alive = X.And(alive, f.normal)
        return Flow(alive, brk, cnt, ret, exc)

    def assign_name(self, fr, name, v):
        fr.env[name] = v

    def merge_envs(self, c, env_t, env_e):
        out = {}
        for k in set(env_t) | set(env_e):
            vt, ve = env_t.get(k, UNDEF), env_e.get(k, UNDEF)
            if vt is UNDEF:
                out[k] = ve
            elif ve is UNDEF:
                out[k] = vt
            else:
                out[k] = vt if vt is ve else merge(c, vt, ve)
        return out

    def join_envs(self, pairs):
        """pairs [(cond, env)] with exclusive conds -> (Or of conds, merged env)"""
        pairs = [(c, e) for c, e in pairs if c is not False]
        if not pairs:
            return False, None
        acc = pairs[-1][1]
        tot = pairs[-1][0]
        for c, e in reversed(pairs[:-1]):
            acc = self.merge_envs(c, e, acc)
            tot = X.Or(tot, c)
        return tot, acc

    def stmt(self, st, fr, g) -> Flow:
        self.stats["stmts"] += 1
        m = getattr(self, "s_" + type(st).__name__, None)
        if m is None:
            raise Unsupported(f"statement {type(st).__name__} at line {getattr(st, 'lineno', '?')} of {fr.fname}")
        n_raised = len(self.raised)
        self.cur_g = g
        try:
            f = m(st, fr, g)
        except (IndexError, KeyError, ZeroDivisionError) as e:
            # a concrete operation failed: on this path the program raises.  (If the path is infeasible nothing is
            # recorded; either way the path ends here.)
            if isinstance(st, (ast.If, ast.While, ast.For, ast.Try, ast.With, ast.FunctionDef)):
                raise
            if self.feasible(g):
                self.do_raise(g, type(e).__name__, str(e), fr, st)
                self.raised[-1].native = True
                return Flow(normal=False, exc=True)
            return Flow(normal=False)
        # exceptions raised by callees / index errors while evaluating this statement's expressions
        if len(self.raised) > n_raised and not isinstance(st, (ast.Try, ast.If, ast.While, ast.For, ast.With, ast.Raise, ast.Assert)):
            extra = X.Or(*[r.guard for r in self.raised[n_raised:]])
            if extra is not False:
                f = Flow(X.And(f.normal, X.Not(extra)), f.brk, f.cnt, f.ret, X.Or(f.exc, extra))
        return f

    def s_Pass(self, st, fr, g):
        return NORMAL

    def s_Expr(self, st, fr, g):
        if isinstance(st.value, ast.Constant):
            return NORMAL          # docstring
        self.eval(st.value, fr, g)
        return NORMAL

    def s_Import(self, st, fr, g):
        import importlib
        for a in st.names:
            if a.asname:
                fr.env[a.asname] = importlib.import_module(a.name)
            else:
                fr.env[a.name.split(".")[0]] = __import__(a.name)
        return NORMAL

    def s_ImportFrom(self, st, fr, g):
        import importlib
        pkg = fr.glob.get("__package__")
        mod = importlib.import_module(("." * st.level) + (st.module or ""), pkg) if st.level else importlib.import_module(st.module)
        for a in st.names:
            fr.env[a.asname or a.name] = self.name_overrides.get(a.name, getattr(mod, a.name))
        return NORMAL

    def s_FunctionDef(self, st, fr, g):
        fr.env[st.name] = Closure(self, st, (fr.env,) + tuple(fr.chain), fr.glob, st.name, frame=fr)
        return NORMAL

    def s_Assign(self, st, fr, g):
        v = self.eval(st.value, fr, g)
        for t in st.targets:
            self.assign(t, v, fr, g)
        return NORMAL

    def s_AnnAssign(self, st, fr, g):
        if st.value is not None:
            self.assign(st.target, self.eval(st.value, fr, g), fr, g)
        return NORMAL

    def s_AugAssign(self, st, fr, g):
        t = st.target
        if isinstance(t, ast.Name):
            cur = self.load_name(t.id, fr)
            rhs = self.eval(st.value, fr, g)
            if isinstance(cur, np.ndarray):
                new = self.binop(st.op, cur, rhs)      # in-place on the array object
                self.store_index(cur, Ellipsis, new, g)
            elif isinstance(cur, GList) and isinstance(st.op, ast.Add):
                for sg, x in self.iter_values(rhs, g):
                    cur.append_guarded(X.And(g, sg), x)
            else:
                self.assign_name(fr, t.id, self.binop(st.op, cur, rhs))
        elif isinstance(t, ast.Subscript):
            obj = self.eval(t.value, fr, g)
            idx = self.eval_index(t.slice, fr, g)
            cur = self.load_index(obj, idx, g)
            rhs = self.eval(st.value, fr, g)
            self.store_index(obj, idx, self.binop(st.op, cur, rhs), g)
        elif isinstance(t, ast.Attribute):
            obj = self.eval(t.value, fr, g)
            cur = self.get_attr(obj, t.attr, g)
            rhs = self.eval(st.value, fr, g)
            if isinstance(cur, np.ndarray):
                new = self.binop(st.op, cur, rhs)
                self.store_index(cur, Ellipsis, new, g)
            else:
                self.set_attr(obj, t.attr, self.binop(st.op, cur, rhs), g)
        else:
            raise Unsupported("augmented assignment target")
        return NORMAL

    def assign(self, t, v, fr, g):
        if isinstance(t, ast.Name):
            self.assign_name(fr, t.id, v)
        elif isinstance(t, (ast.Tuple, ast.List)):
            vals = self.iter_values(v, g)
            if any(isinstance(e, ast.Starred) for e in t.elts):
                raise Unsupported("starred assignment")
            if len(vals) != len(t.elts):
                raise Unsupported(f"unpack {len(vals)} values into {len(t.elts)} targets")
            for (sg, x), e in zip(vals, t.elts):
                if sg is not True:
                    raise Unsupported("unpacking a list with symbolic membership")
                self.assign(e, x, fr, g)
        elif isinstance(t, ast.Subscript):
            obj = self.eval(t.value, fr, g)
            idx = self.eval_index(t.slice, fr, g)
            self.store_index(obj, idx, v, g)
        elif isinstance(t, ast.Attribute):
            obj = self.eval(t.value, fr, g)
            self.set_attr(obj, t.attr, v, g)
        else:
            raise Unsupported(f"assignment target {type(t).__name__}")

    def s_Return(self, st, fr, g):
        v = self.eval(st.value, fr, g) if st.value is not None else None
        fr.rets.append((g, v))
        return Flow(normal=False, ret=True)

    def s_Break(self, st, fr, g):
        return Flow(normal=False, brk=[(True, dict(fr.env))])

    def s_Continue(self, st, fr, g):
        return Flow(normal=False, cnt=[(True, dict(fr.env))])

    def do_raise(self, g, etype, msg, fr, st):
        self.raised.append(Raised(g, etype, msg, f"{fr.fname}:{getattr(st, 'lineno', '?')}"))

    def s_Raise(self, st, fr, g):
        et, msg = "Exception", ""
        if st.exc is not None:
            node = st.exc
            if isinstance(node, ast.Call):
                et = ast.unparse(node.func)
                try:
                    a0 = self.eval(node.args[0], fr, g) if node.args else ""
                    msg = a0 if isinstance(a0, str) else "<symbolic message>"
                except Unsupported:
                    msg = "<message>"
            else:
                et = ast.unparse(node)
        self.do_raise(g, et, msg, fr, st)
        return Flow(normal=False, exc=True)

    def s_Assert(self, st, fr, g):
        c = bexpr(self.eval(st.test, fr, g))
        if c is True:
            return NORMAL
        msg = ""
        if st.msg is not None:
            try:
                mv = self.eval(st.msg, fr, X.And(g, X.Not(c)))
                msg = mv if isinstance(mv, str) else "<symbolic message>"
            except Exception:
                msg = "<message>"
        bad = X.Not(c)
        self.do_raise(X.And(g, bad), "AssertionError", msg, fr, st)
        return Flow(normal=c, exc=bad)

    def s_If(self, st, fr, g):
        c = bexpr(self.eval(st.test, fr, g))
        if c is True:
            return self.block(st.body, fr, g)
        if c is False:
            return self.block(st.orelse, fr, g)
        env0 = fr.env
        fr.env = self.refine(st.test, dict(env0), fr, True)
        ft = self.block(st.body, fr, X.And(g, c))
        env_t = fr.env
        fr.env = self.refine(st.test, dict(env0), fr, False)
        fe = self.block(st.orelse, fr, X.And(g, X.Not(c)))
        env_e = fr.env
        if ft.normal is False:
            fr.env = env_e
        elif fe.normal is False:
            fr.env = env_t
        else:
            fr.env = self.merge_envs(c, env_t, env_e)
        nc = X.Not(c)
        return Flow(X.Ite(c, ft.normal, fe.normal),
                    [(X.And(c, k), e) for k, e in ft.brk] + [(X.And(nc, k), e) for k, e in fe.brk],
                    [(X.And(c, k), e) for k, e in ft.cnt] + [(X.And(nc, k), e) for k, e in fe.cnt],
                    X.Ite(c, ft.ret, fe.ret), X.Ite(c, ft.exc, fe.exc))

    _NEG = {ast.Lt: operator.ge, ast.LtE: operator.gt, ast.Gt: operator.le, ast.GtE: operator.lt, ast.Eq: operator.ne, ast.NotEq: operator.eq}
    _POS = {ast.Lt: operator.lt, ast.LtE: operator.le, ast.Gt: operator.gt, ast.GtE: operator.ge, ast.Eq: operator.eq, ast.NotEq: operator.ne}
    _FLIP = {ast.Lt: ast.Gt, ast.LtE: ast.GtE, ast.Gt: ast.Lt, ast.GtE: ast.LtE, ast.Eq: ast.Eq, ast.NotEq: ast.NotEq}

    def refine(self, test, env, fr, positive):
        """Path-sensitive refinement: in the environment of a branch taken because `test` is `positive`, drop the
        alternatives of guarded-alternative variables (SV) that contradict the test.  Only removes alternatives that are
        impossible on the branch, so the environment stays exact under the branch's path condition."""
        if isinstance(test, ast.BoolOp):
            if isinstance(test.op, ast.And) == positive:
                for v in test.values:
                    env = self.refine(v, env, fr, positive)
            return env
        if isinstance(test, ast.UnaryOp) and isinstance(test.op, ast.Not):
            return self.refine(test.operand, env, fr, not positive)
        if isinstance(test, ast.Compare) and len(test.ops) == 1:
            op, l, r = type(test.ops[0]), test.left, test.comparators[0]
            if op in (ast.Is, ast.IsNot) and isinstance(l, ast.Name) and isinstance(env.get(l.id), SV) and isinstance(r, ast.Constant) and r.value is None:
                want_none = (op is ast.Is) == positive
                sv = env[l.id]
                keep = [(gd, v) for gd, v in sv.alts if (v is None) == want_none]
                if keep and len(keep) < len(sv.alts):
                    env[l.id] = SV(keep).simp() if len(keep) > 1 else keep[0][1]
                return env
            if op not in self._POS:
                return env
            if isinstance(r, ast.Name) and isinstance(env.get(r.id), SV) and not (isinstance(l, ast.Name) and isinstance(env.get(l.id), SV)):
                op, l, r = self._FLIP[op], r, l
            if isinstance(l, ast.Name) and isinstance(env.get(l.id), SV) and isinstance(r, (ast.Name, ast.Constant)):
                rv = r.value if isinstance(r, ast.Constant) else env.get(r.id, fr.glob.get(r.id, UNDEF))
                if rv is UNDEF or is_sym(rv) or not isinstance(rv, (int, np.integer)):
                    return env
                f = (self._POS if positive else self._NEG)[op]
                sv = env[l.id]
                try:
                    keep = [(gd, v) for gd, v in sv.alts if is_sym(v) or f(v, rv)]
                except TypeError:
                    return env
                if keep and len(keep) < len(sv.alts):
                    env[l.id] = SV(keep).simp() if len(keep) > 1 else keep[0][1]
        return env

    def s_While(self, st, fr, g):
        if st.orelse:
            raise Unsupported("while-else")
        return self._run_loop(st, fr, g, None)

    def s_For(self, st, fr, g):
        if st.orelse:
            raise Unsupported("for-else")
        it = self.eval(st.iter, fr, g)
        items = self.iter_values(it, g)
        return self._run_loop(st, fr, g, items)

    def _run_loop(self, st, fr, g, items):
        env0 = fr.env
        exits = []                 # (cond relative to loop entry, env)
        ret = exc = False
        running = True
        env_run = dict(env0)
        k = 0
        while True:
            fr.env = env_run
            gi = X.And(g, running)
            if items is None:
                c = bexpr(self.eval(st.test, fr, gi))
                ex = X.And(running, X.Not(c))
                if ex is not False:
                    exits.append((ex, self.refine(st.test, dict(env_run), fr, False)))
                enter = X.And(running, c)
                if enter is False:
                    break
                if k >= self.loop_bound:
                    self.side.append((f"unwind[{fr.fname}:{st.lineno}]", X.Not(X.And(g, enter))))
                    break
                slot_guard = True
            else:
                if k >= len(items):
                    if running is not False:
                        exits.append((running, dict(env_run)))
                    break
                slot_guard, item = items[k]
                enter = X.And(running, slot_guard)
                if enter is False:
                    k += 1
                    continue
            fr.env = dict(env_run) if items is not None else self.refine(st.test, dict(env_run), fr, True)
            if items is not None:
                self.assign(st.target, item, fr, X.And(g, enter))
            fb = self.block(st.body, fr, X.And(g, enter))
            for bc, be in fb.brk:
                exits.append((X.And(enter, bc), be))
            ret = X.Or(ret, X.And(enter, fb.ret))
            exc = X.Or(exc, X.And(enter, fb.exc))
            cont, env_next = self.join_envs([(fb.normal, fr.env)] + list(fb.cnt))
            if items is None or slot_guard is True:
                if cont is False:
                    running = False
                    env_run = env0
                    if items is None:
                        break
                else:
                    running = X.And(running, cont) if items is not None else X.And(enter, cont)
                    env_run = env_next
            else:
                # the slot may be absent: then state and aliveness are unchanged
                if cont is False:
                    running = X.And(running, X.Not(slot_guard))
                else:
                    env_run = self.merge_envs(slot_guard, env_next, env_run)
                    running = X.And(running, X.Ite(slot_guard, cont, True))
            if running is False:
                break
            k += 1
        normal, env = self.join_envs(exits)
        if env is None:
            fr.env = env0
            return Flow(False, [], [], ret, exc)
        fr.env = env
        return Flow(normal, [], [], ret, exc)

    def s_Try(self, st, fr, g):
        if st.finalbody or st.orelse:
            raise Unsupported("try/finally/else")
        n0 = len(self.raised)
        env0 = fr.env
        fr.env = dict(env0)
        fb = self.block(st.body, fr, g)
        env_b = fr.env
        new = self.raised[n0:]
        if not new:
            return fb
        pairs = [(fb.normal, env_b)]
        normal, brk, cnt, ret = fb.normal, list(fb.brk), list(fb.cnt), fb.ret
        caught_total = False
        exc_h = False
        for h in st.handlers:
            if h.type is None:
                names = None
            elif isinstance(h.type, ast.Tuple):
                names = [ast.unparse(e) for e in h.type.elts]
            else:
                names = [ast.unparse(h.type)]
            mine = [r for r in new if names is None or r.etype in names or "Exception" in names or "BaseException" in names]
            new = [r for r in new if r not in mine]
            if not mine:
                continue
            hg = X.Or(*[r.guard for r in mine])
            for r in mine:
                self.raised.remove(r)
            # state at the raise point is approximated by the state at the end of the body: only sound when the
            # handler does not read variables assigned in the body; enforced syntactically
            assigned = {n.id for b in st.body for n in ast.walk(b) if isinstance(n, ast.Name) and isinstance(n.ctx, ast.Store)}
            read = {n.id for b in h.body for n in ast.walk(b) if isinstance(n, ast.Name) and isinstance(n.ctx, ast.Load)}
            if assigned & read:
                raise Unsupported("except handler reads a variable assigned in the try body")
            fr.env = dict(env0)
            fh = self.block(h.body, fr, hg)
            pairs.append((X.And(hg, fh.normal), fr.env))
            normal = X.Or(normal, X.And(hg, fh.normal))
            brk += [(X.And(hg, c), e) for c, e in fh.brk]
            cnt += [(X.And(hg, c), e) for c, e in fh.cnt]
            ret = X.Or(ret, X.And(hg, fh.ret))
            exc_h = X.Or(exc_h, X.And(hg, fh.exc))
            caught_total = X.Or(caught_total, hg)
        _, env = self.join_envs(pairs)
        fr.env = env if env is not None else env0
        return Flow(normal, brk, cnt, ret, X.Or(X.And(fb.exc, X.Not(caught_total)), exc_h))

    # =================================================================================== expressions
    def load_name(self, name, fr):
        if name in fr.env:
            v = fr.env[name]
            if v is UNDEF:
                raise Unsupported(f"unbound local {name}")
            return v
        for env in fr.chain:
            if name in env:
                return env[name]
        if name in self.name_overrides:
            return self.name_overrides[name]
        if name in fr.glob:
            return fr.glob[name]
        if hasattr(builtins, name):
            return getattr(builtins, name)
        raise NameError(name)

    def eval(self, node, fr, g):
        m = getattr(self, "e_" + type(node).__name__, None)
        if m is None:
            raise Unsupported(f"expression {type(node).__name__} in {fr.fname}")
        return m(node, fr, g)

    def e_Constant(self, node, fr, g):
        return node.value

    def e_Name(self, node, fr, g):
        return self.load_name(node.id, fr)

    def e_Tuple(self, node, fr, g):
        out = []
        for e in node.elts:
            if isinstance(e, ast.Starred):
                out.extend(x for _, x in self._plain_items(self.eval(e.value, fr, g), g))
            else:
                out.append(self.eval(e, fr, g))
        return tuple(out)

    def _plain_items(self, v, g):
        items = self.iter_values(v, g)
        if any(sg is not True for sg, _ in items):
            raise Unsupported("starred expansion of a list with symbolic membership")
        return items

    def e_List(self, node, fr, g):
        out = []
        for e in node.elts:
            if isinstance(e, ast.Starred):
                out.extend(x for _, x in self._plain_items(self.eval(e.value, fr, g), g))
            else:
                out.append(self.eval(e, fr, g))
        return GList(out)

    def e_Dict(self, node, fr, g):
        return {self.eval(k, fr, g): self.eval(v, fr, g) for k, v in zip(node.keys, node.values)}

    def e_JoinedStr(self, node, fr, g):
        parts = []
        for v in node.values:
            if isinstance(v, ast.Constant):
                parts.append(str(v.value))
            else:
                x = self.eval(v.value, fr, g)
                if has_sym(x):
                    parts.append("<sym>")
                else:
                    spec = self.eval(v.format_spec, fr, g) if v.format_spec is not None else ""
                    if v.conversion == 114:
                        x = repr(x)
                    elif v.conversion == 115:
                        x = str(x)
                    x = x.plain() if isinstance(x, GList) else x
                    parts.append(format(x, spec))
        return "".join(parts)

    def e_Lambda(self, node, fr, g):
        return Closure(self, node, (fr.env,) + tuple(fr.chain), fr.glob, frame=fr)

    def e_IfExp(self, node, fr, g):
        c = bexpr(self.eval(node.test, fr, g))
        if c is True:
            return self.eval(node.body, fr, g)
        if c is False:
            return self.eval(node.orelse, fr, g)
        a = self.eval(node.body, fr, X.And(g, c))
        b = self.eval(node.orelse, fr, X.And(g, X.Not(c)))
        return merge(c, a, b)

    def e_BoolOp(self, node, fr, g):
        is_and = isinstance(node.op, ast.And)
        v = self.eval(node.values[0], fr, g)
        for nx in node.values[1:]:
            c = bexpr(v)
            if c is True:
                if is_and:
                    v = self.eval(nx, fr, g)
                continue
            if c is False:
                if not is_and:
                    v = self.eval(nx, fr, g)
                continue
            if is_and:
                w = self.eval(nx, fr, X.And(g, c))
                v = land(v, w) if _boolish(v) and _boolish(w) else merge(c, w, v)
            else:
                w = self.eval(nx, fr, X.And(g, X.Not(c)))
                v = lor(v, w) if _boolish(v) and _boolish(w) else merge(c, v, w)
        return v

    def e_UnaryOp(self, node, fr, g):
        v = self.eval(node.operand, fr, g)
        if isinstance(node.op, ast.Not):
            if isinstance(v, GList):
                return lnot(mkbool(bexpr(v)))
            return lnot(v) if (is_sym(v) or isinstance(v, np.ndarray)) else (not v)
        if isinstance(node.op, ast.USub):
            return -v
        if isinstance(node.op, ast.Invert):
            return ~v
        if isinstance(node.op, ast.UAdd):
            return +v
        raise Unsupported("unary op")

    _BIN = {ast.Add: operator.add, ast.Sub: operator.sub, ast.Mult: operator.mul, ast.FloorDiv: operator.floordiv,
            ast.Mod: operator.mod, ast.BitAnd: operator.and_, ast.BitOr: operator.or_, ast.BitXor: operator.xor,
            ast.LShift: operator.lshift, ast.RShift: operator.rshift, ast.MatMult: operator.matmul,
            ast.Div: operator.truediv, ast.Pow: operator.pow}

    def binop(self, op, a, b):
        f = self._BIN.get(type(op))
        if f is None:
            raise Unsupported(f"operator {type(op).__name__}")
        from . import models
        return models.binop(self, f, a, b)

    def e_BinOp(self, node, fr, g):
        a = self.eval(node.left, fr, g)
        b = self.eval(node.right, fr, g)
        return self.binop(node.op, a, b)

    def e_Compare(self, node, fr, g):
        left = self.eval(node.left, fr, g)
        res = True
        for op, rn in zip(node.ops, node.comparators):
            right = self.eval(rn, fr, g)
            r = self.compare(op, left, right)
            res = r if res is True else land(res, r) if (is_sym(res) or is_sym(r)) else (res and r)
            left = right
            if res is False:
                break
        return res

    def compare(self, op, a, b):
        from . import models
        if isinstance(op, ast.Eq):
            return veq(models.unwrap_plain(a), models.unwrap_plain(b))
        if isinstance(op, ast.NotEq):
            r = veq(models.unwrap_plain(a), models.unwrap_plain(b))
            return lnot(r) if (is_sym(r) or isinstance(r, np.ndarray)) else (not r)
        if isinstance(op, ast.Lt):
            return a < b
        if isinstance(op, ast.LtE):
            return a <= b
        if isinstance(op, ast.Gt):
            return a > b
        if isinstance(op, ast.GtE):
            return a >= b
        if isinstance(op, (ast.Is, ast.IsNot)):
            if isinstance(a, SV) or isinstance(b, SV):
                sv, other = (a, b) if isinstance(a, SV) else (b, a)
                r = mkbool(X.Or(*[gd for gd, v in sv.alts if v is other]))
            else:
                r = a is b
            if isinstance(op, ast.IsNot):
                return lnot(r) if is_sym(r) else (not r)
            return r
        if isinstance(op, (ast.In, ast.NotIn)):
            r = models.contains(self, b, a)
            if isinstance(op, ast.NotIn):
                return lnot(r) if is_sym(r) else (not r)
            return r
        raise Unsupported("comparison operator")

    def e_Attribute(self, node, fr, g):
        obj = self.eval(node.value, fr, g)
        return self.get_attr(obj, node.attr, g)

    def get_attr(self, obj, attr, g):
        from . import models
        return models.get_attr(self, obj, attr, g)

    def set_attr(self, obj, attr, v, g):
        if g is True or not hasattr(obj, attr):
            setattr(obj, attr, v)
        else:
            setattr(obj, attr, merge(g, v, getattr(obj, attr)))

    def e_Subscript(self, node, fr, g):
        obj = self.eval(node.value, fr, g)
        idx = self.eval_index(node.slice, fr, g)
        return self.load_index(obj, idx, g)

    def eval_index(self, node, fr, g):
        if isinstance(node, ast.Slice):
            return slice(*(self.eval(x, fr, g) if x is not None else None for x in (node.lower, node.upper, node.step)))
        if isinstance(node, ast.Tuple):
            return tuple(self.eval_index(e, fr, g) for e in node.elts)
        v = self.eval(node, fr, g)
        if isinstance(v, GList):
            return [self._idx_plain(x) for x in v.plain()]
        if isinstance(v, np.ndarray) and v.dtype == object and v.size and all(type(x) in (int, bool, np.bool_) or isinstance(x, np.integer) for x in v.reshape(-1)):
            # an index array that went through the interpreter's object-array representation but holds only concrete integers / booleans:
            # numpy insists on an integer (boolean) dtype for index arrays
            flat = list(v.reshape(-1))
            isb = all(type(x) in (bool, np.bool_) for x in flat)
            return np.array(flat, dtype=bool if isb else np.intp).reshape(v.shape)
        return v

    @staticmethod
    def _idx_plain(x):
        return x

    def load_index(self, obj, idx, g):
        from . import models
        return models.load_index(self, obj, idx, g)

    def store_index(self, obj, idx, v, g):
        from . import models
        return models.store_index(self, obj, idx, v, g)

    def e_Call(self, node, fr, g):
        # method call on a value?
        args = []
        for a in node.args:
            if isinstance(a, ast.Starred):
                args.extend(x for _, x in self._plain_items(self.eval(a.value, fr, g), g))
            else:
                args.append(self.eval(a, fr, g))
        kwargs = {}
        for k in node.keywords:
            if k.arg is None:
                kwargs.update(self.eval(k.value, fr, g))
            else:
                kwargs[k.arg] = self.eval(k.value, fr, g)
        if isinstance(node.func, ast.Attribute):
            obj = self.eval(node.func.value, fr, g)
            from . import models
            return models.call_method(self, obj, node.func.attr, args, kwargs, g)
        fn = self.eval(node.func, fr, g)
        return self.call(fn, args, kwargs, g)

    def _comp(self, node, fr, g, elt_fn):
        """list/generator/set comprehension -> guarded slots [(guard, value)]"""
        out = []
        env0 = fr.env

        def rec(gi, gens, slotg):
            if not gens:
                out.append((slotg, elt_fn(X.And(g, slotg))))
                return
            gen = gens[0]
            it = self.eval(gen.iter, fr, X.And(g, slotg))
            for sg, item in self.iter_values(it, X.And(g, slotg)):
                sg2 = X.And(slotg, sg)
                if sg2 is False:
                    continue
                self.assign(gen.target, item, fr, X.And(g, sg2))
                ok = sg2
                for cond in gen.ifs:
                    c = bexpr(self.eval(cond, fr, X.And(g, ok)))
                    ok = X.And(ok, c)
                    if ok is False:
                        break
                if ok is False:
                    continue
                rec(gi + 1, gens[1:], ok)

        fr.env = dict(env0)
        try:
            rec(0, node.generators, True)
        finally:
            fr.env = env0
        return out

    def e_ListComp(self, node, fr, g):
        return GList.guarded(self._comp(node, fr, g, lambda gg: self.eval(node.elt, fr, gg)))

    def e_GeneratorExp(self, node, fr, g):
        from . import models
        prev, self.cur_g = self.cur_g, g
        try:
            return models.OneShot(self, [(gd, v) for gd, v in self._comp(node, fr, g, lambda gg: self.eval(node.elt, fr, gg)) if gd is not False], "generator")
        finally:
            self.cur_g = prev

    def e_Starred(self, node, fr, g):
        raise Unsupported("starred expression")

    # -- iteration -------------------------------------------------------------------------------------
    def iter_values(self, v, g):
        """[(slot guard, value)] for anything iterable"""
        from . import models
        return models.iter_values(self, v, g)


def _boolish(v):
    return isinstance(v, (bool, np.bool_)) or (isinstance(v, SB) and v.isbool)
