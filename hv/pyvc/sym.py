"""Symbolic value domain of the interpreter.

  SB     a value known to be 0 or 1 (also used for Python bools), backed by an expr.E (or True/False folded away)
  SL     integer  const + sum coef_i * bit_i   (dot products, np.sum, counts)
  SV     finitely many guarded alternatives [(guard, value)], guards exclusive and exhaustive (loop counters,
         merged ints, merged heterogeneous results such as None / list)
  GList  list whose slots carry presence guards
  SArr   numpy object ndarray subclass carrying a declared dtype (the dtype the real program would have)

Every operator either returns an exact symbolic result or raises Unsupported - never an approximation.
"""
from __future__ import annotations
import numpy as np
from . import expr as X
from .expr import E


class Unsupported(Exception):
    """A construct outside the modelled subset: the obligation becomes UNDECIDED, never 'proved'."""


class SymbolicBranch(Unsupported):
    pass


def is_sym(v):
    return isinstance(v, (SB, SL, SV))


def cbit(v):
    """concrete 0/1 (python int, bool, numpy integer/bool) -> bool, else None"""
    if isinstance(v, (bool, np.bool_)):
        return bool(v)
    if isinstance(v, (int, np.integer)) and int(v) in (0, 1):
        return bool(int(v))
    return None


def is_cint(v):
    return isinstance(v, (int, np.integer)) and not isinstance(v, (bool, np.bool_)) or isinstance(v, (bool, np.bool_))


def mkbit(e):
    """E|bool -> int 0/1 or SB"""
    if e is True:
        return 1
    if e is False:
        return 0
    return SB(e)


def mkbool(e):
    if e is True or e is False:
        return e
    return SB(e, True)


def bexpr(v):
    """truth value of v as E|bool (python truthiness semantics)"""
    if isinstance(v, SB):
        return v.e
    if isinstance(v, SL):
        z = v.eq(0)
        return X.Not(z.e) if isinstance(z, SB) else (not z)
    if isinstance(v, SV):
        return X.Or(*[X.And(g, bexpr(x)) for g, x in v.alts])
    if isinstance(v, GList):
        return X.Or(*[g for g, _ in v.slots])
    if isinstance(v, E):
        return v
    if isinstance(v, np.ndarray):
        if v.size == 1:
            return bexpr(v.reshape(-1)[0])
        raise Unsupported("truth value of an array with more than one element")
    return bool(v)


class SB:
    __slots__ = ("e", "isbool")
    __array_priority__ = 1000

    def __init__(self, e, isbool=False):
        assert isinstance(e, E), e
        self.e = e
        self.isbool = isbool

    def __repr__(self):
        return f"SB({self.e!r})"

    def __hash__(self):
        return hash(self.e)

    def __bool__(self):
        raise SymbolicBranch("branch on a symbolic bit outside the interpreter")

    def __index__(self):
        raise Unsupported("symbolic bit used as an index")

    __int__ = __index__

    # --- bitwise / boolean ---
    def _other(self, o):
        if isinstance(o, SB):
            return o.e
        c = cbit(o)
        if c is None:
            return None
        return c

    def __xor__(self, o):
        oe = self._other(o)
        if oe is None:
            return NotImplemented if not is_cint(o) else SV.of(self).map(lambda a: a ^ int(o))
        return mkbit(X.Xor(self.e, oe))
    __rxor__ = __xor__

    def __and__(self, o):
        oe = self._other(o)
        if oe is None:
            if is_cint(o):
                return mkbit(X.And(self.e, bool(int(o) & 1)))
            return NotImplemented
        return mkbit(X.And(self.e, oe))
    __rand__ = __and__

    def __or__(self, o):
        oe = self._other(o)
        if oe is None:
            if is_cint(o):
                return SV.of(self).map(lambda a: a | int(o))
            if isinstance(o, SV):
                return SV.of(self).binop(o, lambda a, b: a | b)
            return NotImplemented
        return mkbit(X.Or(self.e, oe))
    __ror__ = __or__

    def __invert__(self):
        if self.isbool:
            raise Unsupported("~ on bool")
        return SL(-1, [(-1, self.e)])

    def __lshift__(self, o):
        if is_cint(o):
            return SV.of(self).map(lambda a: a << int(o))
        return NotImplemented

    # --- arithmetic ---
    def _bool_bool(self, o, what):
        # the sum / difference of two symbolic BOOLEANS is 0..2 for Python bools but a logical or (TypeError for -) for numpy.bool_; the model cannot tell
        # which of the two a comparison result is, so it refuses instead of guessing
        if self.isbool and ((isinstance(o, SB) and o.isbool) or isinstance(o, (bool, np.bool_))):
            raise Unsupported(f"{what} of two boolean values (Python int arithmetic vs numpy logical operation: not modelled)")

    def __add__(self, o):
        self._bool_bool(o, "sum")
        if is_cint(o):                    # bit + constant: counter-like, keep as guarded alternatives
            return SV([(self.e, 1 + int(o)), (X.Not(self.e), int(o))]).simp()
        return SL.of(self) + o
    __radd__ = __add__

    def __sub__(self, o):
        self._bool_bool(o, "difference")
        if is_cint(o):
            return SV([(self.e, 1 - int(o)), (X.Not(self.e), -int(o))]).simp()
        return SL.of(self) - o

    def __rsub__(self, o):
        if is_cint(o):
            return SV([(self.e, int(o) - 1), (X.Not(self.e), int(o))]).simp()
        return SL.of(o) - self

    def __neg__(self):
        return SL(0, [(-1, self.e)])

    def __mul__(self, o):
        if isinstance(o, SB):
            return mkbit(X.And(self.e, o.e))
        if is_cint(o):
            c = cbit(o)
            if c is not None:
                return mkbit(X.And(self.e, c))
            return SL(0, [(int(o), self.e)])
        if isinstance(o, SL):
            return o * self
        if isinstance(o, np.ndarray):
            return NotImplemented
        return NotImplemented
    __rmul__ = __mul__

    def __mod__(self, o):
        if is_cint(o) and int(o) >= 2:
            return mkbit(self.e)
        return NotImplemented

    def __floordiv__(self, o):
        if is_cint(o) and int(o) >= 2:
            return 0
        return NotImplemented

    # --- comparison ---
    def __eq__(self, o):
        if isinstance(o, SB):
            return mkbool(X.Iff(self.e, o.e))
        if isinstance(o, (SL, SV)):
            return o.__eq__(self)
        if is_cint(o):
            c = cbit(o)
            if c is None:
                return False
            return mkbool(self.e if c else X.Not(self.e))
        if isinstance(o, np.ndarray):
            return NotImplemented
        return False

    def __ne__(self, o):
        r = self.__eq__(o)
        if r is NotImplemented:
            return r
        return lnot(r)

    def __lt__(self, o):
        return SL.of(self) < o

    def __le__(self, o):
        return SL.of(self) <= o

    def __gt__(self, o):
        return SL.of(self) > o

    def __ge__(self, o):
        return SL.of(self) >= o


def lnot(v):
    """python `not v`"""
    return mkbool(X.Not(bexpr(v)))


def land(*vs):
    return mkbool(X.And(*[bexpr(v) for v in vs]))


def lor(*vs):
    return mkbool(X.Or(*[bexpr(v) for v in vs]))


class SL:
    """const + sum coef*bit"""
    __slots__ = ("const", "terms")
    __array_priority__ = 1000

    def __init__(self, const, terms):
        acc = {}
        const = int(const)
        for c, b in terms:
            if b is True:
                const += c
                continue
            if b is False or c == 0:
                continue
            if b.op == "not":
                const += c
                c, b = -c, b.args[0]
            p = acc.get(b.uid)
            c2 = c + (p[0] if p else 0)
            if c2 == 0:
                acc.pop(b.uid, None)
            else:
                acc[b.uid] = (c2, b)
        self.const = const
        self.terms = tuple(acc.values())

    @staticmethod
    def of(v):
        if isinstance(v, SL):
            return v
        if isinstance(v, SB):
            return SL(0, [(1, v.e)])
        if is_cint(v):
            return SL(int(v), [])
        if isinstance(v, SV):
            raise Unsupported("SV in linear arithmetic")
        raise Unsupported(f"cannot use {type(v).__name__} in linear arithmetic")

    def simp(self):
        if not self.terms:
            return self.const
        if self.const == 0 and len(self.terms) == 1 and self.terms[0][0] == 1:
            return SB(self.terms[0][1])
        return self

    def bounds(self):
        lo = self.const + sum(c for c, _ in self.terms if c < 0)
        hi = self.const + sum(c for c, _ in self.terms if c > 0)
        return lo, hi

    def __repr__(self):
        return f"SL({self.const}+{len(self.terms)} terms)"

    def __hash__(self):
        return id(self)

    def __bool__(self):
        raise SymbolicBranch("branch on a symbolic integer outside the interpreter")

    def __index__(self):
        raise Unsupported("symbolic integer used as an index")
    __int__ = __index__

    def __add__(self, o):
        if isinstance(o, np.ndarray):
            return NotImplemented
        if isinstance(o, SV):
            return o.__radd__(self)
        o = SL.of(o)
        return SL(self.const + o.const, self.terms + o.terms).simp()
    __radd__ = __add__

    def __neg__(self):
        return SL(-self.const, [(-c, b) for c, b in self.terms]).simp()

    def __sub__(self, o):
        if isinstance(o, np.ndarray):
            return NotImplemented
        return self + (-SL.of(o))

    def __rsub__(self, o):
        return SL.of(o) + (-self)

    def __mul__(self, o):
        if is_cint(o):
            return SL(self.const * int(o), [(c * int(o), b) for c, b in self.terms]).simp()
        if isinstance(o, SB):
            # (const + sum c_i b_i) * o  = const*o + sum c_i (b_i & o)
            return SL(0, [(self.const, o.e)] + [(c, X.And(b, o.e)) for c, b in self.terms]).simp()
        if isinstance(o, np.ndarray):
            return NotImplemented
        raise Unsupported("product of two symbolic integers")
    __rmul__ = __mul__

    def parity(self):
        return mkbit(X.Xor(bool(self.const & 1), *[b for c, b in self.terms if c & 1]))

    def __mod__(self, o):
        if is_cint(o) and int(o) == 2:
            return self.parity()
        lo, hi = self.bounds()
        if is_cint(o) and 0 <= lo and hi < int(o):
            return self
        raise Unsupported("% on symbolic integer")

    def __and__(self, o):
        if is_cint(o) and int(o) == 1:
            return self.parity()
        raise Unsupported("& on symbolic integer")
    __rand__ = __and__

    def _cmp(self, op, o, shift=0):
        """(self - o + shift) op 0"""
        if isinstance(o, SV):
            return NotImplemented
        o = SL.of(o)
        d = SL(self.const - o.const + shift, self.terms + tuple((-c, b) for c, b in o.terms))
        return mkbool(X.Cmp(op, d.const, d.terms))

    def __le__(self, o):
        return self._cmp("<=", o)

    def __lt__(self, o):
        return self._cmp("<=", o, 1)

    def __ge__(self, o):
        if isinstance(o, SV):
            return NotImplemented
        return SL.of(o)._cmp("<=", self)

    def __gt__(self, o):
        if isinstance(o, SV):
            return NotImplemented
        return SL.of(o)._cmp("<=", self, 1)

    def eq(self, o):
        return self._cmp("==", o)

    def __eq__(self, o):
        if isinstance(o, np.ndarray):
            return NotImplemented
        if isinstance(o, SV):
            return o.__eq__(self)
        if not (is_cint(o) or isinstance(o, (SB, SL))):
            return False
        return self._cmp("==", o)

    def __ne__(self, o):
        r = self.__eq__(o)
        return r if r is NotImplemented else lnot(r)

    def to_sv(self, limit=64):
        """enumerate the possible values (dynamic programming over the terms); only for small sums"""
        dist = {self.const: True}
        for c, b in self.terms:
            nd = {}
            for v, g in dist.items():
                for vv, gg in ((v, X.And(g, X.Not(b))), (v + c, X.And(g, b))):
                    if gg is False:
                        continue
                    nd[vv] = X.Or(nd[vv], gg) if vv in nd else gg
            dist = nd
            if len(dist) > limit:
                raise Unsupported("too many values for SL.to_sv")
        return SV([(g, v) for v, g in sorted(dist.items())]).simp()


def _lin(v):
    return isinstance(v, (SB, SL)) or is_cint(v)


class SV:
    """guarded alternatives; guards are exclusive and (under the path condition) exhaustive"""
    __slots__ = ("alts",)
    __array_priority__ = 1000

    def __init__(self, alts):
        acc = []
        for g, v in alts:
            if g is False:
                continue
            if isinstance(v, SB):
                one, zero = (True, False) if v.isbool else (1, 0)
                for gg, vv in ((X.And(g, v.e), one), (X.And(g, X.Not(v.e)), zero)):
                    if gg is not False:
                        acc.append((gg, vv))
            elif isinstance(v, SV):
                for g2, v2 in v.alts:
                    gg = X.And(g, g2)
                    if gg is not False:
                        acc.append((gg, v2))
            else:
                acc.append((g, v))
        merged = []
        for g, v in acc:
            for i, (g0, v0) in enumerate(merged):
                if same_value(v0, v):
                    merged[i] = (X.Or(g0, g), v0)
                    break
            else:
                merged.append((g, v))
        self.alts = merged

    @staticmethod
    def of(v):
        if isinstance(v, SV):
            return v
        if isinstance(v, SB):
            return SV([(v.e, 1), (X.Not(v.e), 0)]) if not v.isbool else SV([(v.e, True), (X.Not(v.e), False)])
        if isinstance(v, SL):
            return SV.of(v.to_sv())
        return SV([(True, v)])

    def simp(self):
        if len(self.alts) == 1:
            return self.alts[0][1]
        vals = [v for _, v in self.alts]
        if all(cbit(v) is not None and not isinstance(v, (bool, np.bool_)) for v in vals):
            return mkbit(X.Or(*[g for g, v in self.alts if cbit(v)]))
        if all(isinstance(v, (bool, np.bool_)) for v in vals):
            return mkbool(X.Or(*[g for g, v in self.alts if v]))
        return self

    def __repr__(self):
        return f"SV({[v for _, v in self.alts]})"

    def __hash__(self):
        return id(self)

    def __bool__(self):
        raise SymbolicBranch("branch on a symbolic value outside the interpreter")

    def __index__(self):
        raise Unsupported("symbolic value used as an index")
    __int__ = __index__

    def map(self, f):
        return SV([(g, f(v)) for g, v in self.alts]).simp()

    def binop(self, o, f):
        o = SV.of(o)
        out = []
        for g1, v1 in self.alts:
            for g2, v2 in o.alts:
                g = X.And(g1, g2)
                if g is not False:
                    out.append((g, f(v1, v2)))
        return SV(out).simp()

    def _bin(self, o, f):
        if isinstance(o, np.ndarray):
            return NotImplemented
        if isinstance(o, (SV,)):
            return self.binop(o, f)
        if isinstance(o, (SB, SL)):
            # keep linear: map alternatives symbolically
            return self.map(lambda a: f(a, o))
        return self.map(lambda a: f(a, o))

    def __add__(self, o): return self._bin(o, lambda a, b: a + b)
    def __radd__(self, o): return self._bin(o, lambda a, b: b + a)
    def __sub__(self, o): return self._bin(o, lambda a, b: a - b)
    def __rsub__(self, o): return self._bin(o, lambda a, b: b - a)
    def __mul__(self, o): return self._bin(o, lambda a, b: a * b)
    def __rmul__(self, o): return self._bin(o, lambda a, b: b * a)
    def __floordiv__(self, o): return self._bin(o, lambda a, b: a // b)
    def __mod__(self, o): return self._bin(o, lambda a, b: a % b)
    def __and__(self, o): return self._bin(o, lambda a, b: a & b)
    def __rand__(self, o): return self._bin(o, lambda a, b: b & a)
    def __or__(self, o): return self._bin(o, lambda a, b: a | b)
    def __ror__(self, o): return self._bin(o, lambda a, b: b | a)
    def __xor__(self, o): return self._bin(o, lambda a, b: a ^ b)
    def __rxor__(self, o): return self._bin(o, lambda a, b: b ^ a)
    def __lshift__(self, o): return self._bin(o, lambda a, b: a << b)
    def __rlshift__(self, o): return self._bin(o, lambda a, b: b << a)
    def __rshift__(self, o): return self._bin(o, lambda a, b: a >> b)
    def __neg__(self): return self.map(lambda a: -a)

    def _cmpop(self, o, f):
        if isinstance(o, np.ndarray):
            return NotImplemented
        o = SV.of(o) if isinstance(o, SV) else SV([(True, o)])
        parts = []
        for g1, v1 in self.alts:
            for g2, v2 in o.alts:
                g = X.And(g1, g2)
                if g is False:
                    continue
                r = f(v1, v2)
                parts.append(X.And(g, bexpr(r)))
        return mkbool(X.Or(*parts))

    def __eq__(self, o): return self._cmpop(o, veq)
    def __ne__(self, o): return lnot(self._cmpop(o, veq))
    def __lt__(self, o): return self._cmpop(o, lambda a, b: a < b)
    def __le__(self, o): return self._cmpop(o, lambda a, b: a <= b)
    def __gt__(self, o): return self._cmpop(o, lambda a, b: a > b)
    def __ge__(self, o): return self._cmpop(o, lambda a, b: a >= b)


def same_value(a, b):
    """syntactic identity used when merging alternatives (never symbolic equality)"""
    if a is b:
        return True
    if is_sym(a) or is_sym(b) or isinstance(a, (np.ndarray, GList)) or isinstance(b, (np.ndarray, GList)):
        if isinstance(a, SB) and isinstance(b, SB):
            return a.e is b.e
        return False
    if type(a) is not type(b) and not (is_cint(a) and is_cint(b) and isinstance(a, (bool, np.bool_)) == isinstance(b, (bool, np.bool_))):
        return False
    if isinstance(a, (list, tuple)):
        return len(a) == len(b) and all(same_value(x, y) for x, y in zip(a, b))
    try:
        r = a == b
        return r is True or (isinstance(r, np.bool_) and bool(r))
    except Exception:
        return False


def veq(a, b):
    """python `a == b` on (possibly symbolic) values, returning bool / SB"""
    if isinstance(a, (SB, SL, SV)):
        return a.__eq__(b)
    if isinstance(b, (SB, SL, SV)):
        return b.__eq__(a)
    if isinstance(a, GList) or isinstance(b, GList):
        return glist_eq(a, b)
    if isinstance(a, (list, tuple)) and isinstance(b, (list, tuple)) and type(a) is type(b):
        if len(a) != len(b):
            return False
        return land(*[veq(x, y) for x, y in zip(a, b)])
    if isinstance(a, np.ndarray) or isinstance(b, np.ndarray):
        return a == b
    return a == b


# ---- merge (ite on values) -----------------------------------------------------------------------------

def merge(c, a, b):
    """value equal to a if c else b.  c: E|bool"""
    if c is True:
        return a
    if c is False:
        return b
    if a is b:
        return a
    if isinstance(a, np.ndarray) and isinstance(b, np.ndarray) and a.shape == b.shape:
        out = np.empty(a.shape, dtype=object)
        fa, fb, fo = a.reshape(-1), b.reshape(-1), out.reshape(-1)
        for i in range(fa.size):
            fo[i] = merge(c, fa[i], fb[i])
        r = out.view(SArr)
        r.decl = getattr(a, "decl", None) if getattr(a, "decl", None) == getattr(b, "decl", None) else None
        if r.decl is None:
            r.decl = decl_of(a)
        return r
    ca, cb_ = cbit(a), cbit(b)
    a_bit = isinstance(a, SB) or ca is not None
    b_bit = isinstance(b, SB) or cb_ is not None
    if a_bit and b_bit:
        ab = isinstance(a, (bool, np.bool_)) or (isinstance(a, SB) and a.isbool)
        bb = isinstance(b, (bool, np.bool_)) or (isinstance(b, SB) and b.isbool)
        if ab == bb:
            ea = a.e if isinstance(a, SB) else ca
            eb = b.e if isinstance(b, SB) else cb_
            e = X.Ite(c, ea, eb)
            return mkbool(e) if ab else mkbit(e)
    if same_value(a, b):
        return a
    if isinstance(a, SL) and _lin(b) or isinstance(b, SL) and _lin(a):
        # c*a + (1-c)*b, exact for linear forms
        a, b = SL.of(a), SL.of(b)
        return SL(0, [(a.const, c), (b.const, X.Not(c))] + [(k, X.And(c, t)) for k, t in a.terms] +
                  [(k, X.And(X.Not(c), t)) for k, t in b.terms]).simp()
    if isinstance(a, (list, tuple)) and isinstance(b, (list, tuple)) and type(a) is type(b) and len(a) == len(b):
        return type(a)(merge(c, x, y) for x, y in zip(a, b))
    return SV([(c, a), (X.Not(c), b)]).simp()


# ---- guarded list ---------------------------------------------------------------------------------------

class GList:
    """list whose slots carry presence guards (slot order = list order among present slots)"""
    __slots__ = ("slots",)

    def __init__(self, items=()):
        self.slots = [(True, v) for v in items]

    @staticmethod
    def guarded(slots):
        g = GList()
        g.slots = [(gd, v) for gd, v in slots if gd is not False]
        return g

    def is_plain(self):
        return all(g is True for g, _ in self.slots)

    def plain(self):
        if not self.is_plain():
            raise Unsupported("list with symbolic membership passed to native code")
        return [v for _, v in self.slots]

    def append_guarded(self, guard, v):
        if guard is not False:
            self.slots.append((guard, v))

    def length(self):
        sure = sum(1 for g, _ in self.slots if g is True)
        terms = [(1, g) for g, _ in self.slots if g is not True]
        if not terms:
            return sure
        return SL(sure, terms).simp()

    def contains(self, x):
        return lor(*[land(g, veq(v, x)) for g, v in self.slots])

    def copy(self):
        return GList.guarded(list(self.slots))

    def concat(self, o):
        o = o if isinstance(o, GList) else GList(o)
        return GList.guarded(self.slots + o.slots)

    def getitem(self, idx):
        """idx concrete int >= 0 (or negative with plain list)"""
        if self.is_plain():
            return self.slots[idx][1]
        if idx < 0:
            raise Unsupported("negative index into a guarded list")
        # idx-th present element: slot j is it iff present(j) and exactly idx present among slots < j
        alts = []
        for j, (g, v) in enumerate(self.slots):
            before = GList.guarded(self.slots[:j]).length()
            cond = land(g, veq(before, idx))
            ce = bexpr(cond)
            if ce is not False:
                alts.append((ce, v))
        if not alts:
            raise IndexError("guarded list index out of range on every path")
        return SV(alts).simp() if len(alts) > 1 or alts[0][0] is not True else alts[0][1]

    def __repr__(self):
        return f"GList({len(self.slots)} slots)"


def glist_eq(a, b):
    if isinstance(a, GList) and a.is_plain():
        a = a.plain()
    if isinstance(b, GList) and b.is_plain():
        b = b.plain()
    if isinstance(a, GList) or isinstance(b, GList):
        raise Unsupported("== on lists with symbolic membership")
    if not isinstance(a, list) or not isinstance(b, list):
        return False
    if len(a) != len(b):
        return False
    return land(*[veq(x, y) for x, y in zip(a, b)])


# ---- arrays ---------------------------------------------------------------------------------------------

class SArr(np.ndarray):
    """object ndarray carrying the dtype the real program's array would have (`decl`)"""

    def __array_finalize__(self, obj):
        self.decl = getattr(obj, "decl", None)


def decl_of(a):
    if isinstance(a, SArr):
        return a.decl
    if isinstance(a, np.ndarray) and a.dtype != object:
        return a.dtype
    return None


def sarr(data, decl):
    a = np.empty(np.shape(data) if not isinstance(data, np.ndarray) else data.shape, dtype=object)
    if isinstance(data, np.ndarray):
        if data.dtype == object:
            a[...] = data
        else:
            flat = a.reshape(-1)
            src = data.reshape(-1)
            for i in range(flat.size):
                v = src[i]
                flat[i] = bool(v) if isinstance(v, np.bool_) else (int(v) if isinstance(v, np.integer) else v.item() if hasattr(v, "item") else v)
    else:
        a[...] = data
    r = a.view(SArr)
    r.decl = np.dtype(decl) if decl is not None else None
    return r


def fresh_bits(prefix, shape, decl="int8"):
    a = np.empty(shape, dtype=object)
    for idx in np.ndindex(*shape) if shape else [()]:
        a[idx] = SB(X.var(prefix + "".join(f"_{i}" for i in idx)))
    r = a.view(SArr)
    r.decl = np.dtype(decl)
    return r


def has_sym(v, depth=0):
    if is_sym(v) or isinstance(v, E):
        return True
    if isinstance(v, GList):
        return (not v.is_plain()) or any(has_sym(x, depth + 1) for _, x in v.slots)
    if isinstance(v, np.ndarray):
        if v.dtype != object:
            return False
        return any(has_sym(x, depth + 1) for x in v.reshape(-1))
    if isinstance(v, (list, tuple)) and depth < 6:
        return any(has_sym(x, depth + 1) for x in v)
    if isinstance(v, dict) and depth < 6:
        return any(has_sym(x, depth + 1) for x in v.values())
    return False


def concretize(v, asg, default=False):
    """evaluate a symbolic value under an assignment {var: bool} to plain python / numpy data"""
    if isinstance(v, SB):
        r = X.evaluate([v.e], asg, default)[0]
        return bool(r) if v.isbool else int(r)
    if isinstance(v, SL):
        vals = X.evaluate([b for _, b in v.terms], asg, default)
        return v.const + sum(c for (c, _), t in zip(v.terms, vals) if t)
    if isinstance(v, SV):
        gs = X.evaluate([g for g, _ in v.alts], asg, default)
        hits = [x for (g, x), t in zip(v.alts, gs) if t]
        if len(hits) != 1:
            raise Unsupported(f"SV alternatives not exclusive/exhaustive under model ({len(hits)} hits)")
        return concretize(hits[0], asg, default)
    if isinstance(v, E):
        return X.evaluate([v], asg, default)[0]
    if isinstance(v, GList):
        gs = X.evaluate([g for g, _ in v.slots], asg, default)
        return [concretize(x, asg, default) for (g, x), t in zip(v.slots, gs) if t]
    if isinstance(v, np.ndarray):
        if v.dtype != object:
            return v
        out = np.empty(v.shape, dtype=object)
        fo, fi = out.reshape(-1), v.reshape(-1)
        for i in range(fi.size):
            fo[i] = concretize(fi[i], asg, default)
        d = decl_of(v)
        try:
            return out.astype(d if d is not None else np.int64)
        except Exception:
            return out
    if isinstance(v, list):
        return [concretize(x, asg, default) for x in v]
    if isinstance(v, tuple):
        return tuple(concretize(x, asg, default) for x in v)
    if isinstance(v, dict):
        return {k: concretize(x, asg, default) for k, x in v.items()}
    return v
