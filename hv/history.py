"""Edited-object obligations: a Stabilizer whose public R / S / phases were changed after earlier calls must behave like a fresh object with the new data.
(The properties speak about the stabilizer an object DENOTES at the time of the call; an instance- or module-level memo that survives an edit breaks them.)"""
from __future__ import annotations
import random
import numpy as np
from . import adapt, e2e
from .oracle import pauli as P, graphs as G


def _apply_edit(n, rows, kind, q):
    rows = list(rows)
    if kind == "s":            # S gate on qubit q:  z_q += x_q
        return [(x, z ^ (((x >> q) & 1) << q)) for x, z in rows]
    if kind == "h":
        out = []
        for x, z in rows:
            xq, zq = (x >> q) & 1, (z >> q) & 1
            out.append(((x & ~(1 << q)) | (zq << q), (z & ~(1 << q)) | (xq << q)))
        return out
    if kind == "cz":           # CZ(q, q+1 mod n)
        r = (q + 1) % n
        return [(x, z ^ (((x >> r) & 1) << q) ^ (((x >> q) & 1) << r)) for x, z in rows]
    raise ValueError(kind)


def edited_job(args):
    """args = (n, [(rows, orbit)], seed, which) ; which in {'expand', 'classify'}"""
    n, items, seed, which = args
    from htstabilizer.stabilizer import Stabilizer
    import htstabilizer.lc_classes as lcc
    rnd = random.Random(seed)
    out = []
    for rows, _ in items:
        for kind in ("s", "h", "cz", "replace"):
            for q in (range(n) if kind != "replace" else [0]):
                st = e2e.mk_stabilizer(n, [(x, z, 0) for x, z in rows])
                # earlier calls on the object
                st.expand()
                [st.is_qubit_entangled(i) for i in range(n)]
                try:
                    lcc.determine_lc_class(st)
                except Exception:
                    pass
                if kind == "replace":
                    new_rows = G.apply_layer_unsigned(n, rows, [rnd.randrange(6) for _ in range(n)])
                    new_rows = _apply_edit(n, new_rows, "cz", rnd.randrange(n))
                else:
                    new_rows = _apply_edit(n, rows, kind, q)
                if G.canon_keys(n, new_rows) is None:
                    continue
                R, S, ph = adapt.matrices_from_gens(n, [(x, z, 0) for x, z in new_rows])
                inplace = (q + len(kind)) % 2 == 0
                if inplace:
                    st.R[...] = R
                    st.S[...] = S
                else:
                    st.R, st.S = R, S
                fresh = e2e.mk_stabilizer(n, [(x, z, 0) for x, z in new_rows])
                labels = [P.to_label(n, (x, z, 0)) for x, z in rows]
                newl = [P.to_label(n, (x, z, 0)) for x, z in new_rows]
                rp = {"n": n, "paulis": labels, "edited_to": newl, "edit": f"{kind} on qubit {q}", "in_place": inplace}
                key = f"{n}:{labels}:{kind}:{q}"
                if which == "expand":
                    a, b = st.expand(), fresh.expand()
                    ok = np.array_equal(a[0], b[0]) and np.array_equal(a[1], b[1]) and [bool(st.is_qubit_entangled(i)) for i in range(n)] == [bool(fresh.is_qubit_entangled(i)) for i in range(n)]
                    out.append(("edited_object.expand_entangled", ok, f"edit-exp:{key}",
                                f"after editing {labels} to {newl} ({rp['edit']}, in place: {inplace}) expand()/is_qubit_entangled differ from a fresh object with the same data", rp))
                else:
                    try:
                        got = lcc.determine_lc_class(st).id()
                    except Exception as e:
                        got = f"{type(e).__name__}"
                    want = lcc.determine_lc_class(fresh).id()
                    out.append(("edited_object.class_id", got == want, f"edit-cls:{key}",
                                f"after editing {labels} to {newl} ({rp['edit']}, in place: {inplace}) the object is classified {got}, a fresh object with the same data {want}", rp))
    return out


def items_for(n, rnd, per_class=1):
    orbit_of, reps = G.orbit_table(n)
    items = []
    for orb, gid in enumerate(reps):
        rows0 = [(x, z) for x, z, _ in G.graph_state_gens(n, G.adj_from_id(n, gid))]
        items.append((rows0, orb))
        for _ in range(per_class - 1):
            items.append((G.apply_layer_unsigned(n, rows0, [rnd.randrange(6) for _ in range(n)]), orb))
    return items
