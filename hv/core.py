"""Common machinery: obligation bookkeeping, verdicts, evidence, known findings, replay files, process pool."""
from __future__ import annotations
import hashlib, inspect, json, multiprocessing as mp, os, sys, time, traceback, textwrap

ROOT = os.path.dirname(os.path.dirname(os.path.abspath(__file__)))
REPO = os.environ.get("HV_REPO", "/repo")
SRC = os.path.join(REPO, "src", "htstabilizer")

PROVED, REFUTED, UNKNOWN = "proved", "refuted", "unknown"
SYM, GROUND, BOUNDED = "SYM", "GROUND", "BOUNDED"


class CheckerError(Exception):
    """The machinery itself is broken (exit 3) - never a violation."""


class Violation:
    def __init__(self, obligation, key, what, replay=None, has_input=True, detail=None):
        self.obligation = obligation      # obligation name
        self.key = key                    # stable identification used by known_findings.jsonl
        self.what = what                  # human readable
        self.replay = replay or {}        # JSON-able data for the replay file
        self.has_input = has_input
        self.detail = detail


class Family:
    """A family of obligations with one name, e.g. C17.cost[line] over all lines."""

    def __init__(self, name, route, backend, desc=""):
        self.name, self.route, self.backend, self.desc = name, route, backend, desc
        self.total = 0
        self.proved = 0
        self.refuted = 0
        self.unknown = 0
        self.time = 0.0
        self.samples = []
        self.exhaustive = None
        self.domain = None
        self.notes = []

    def as_json(self):
        d = {"name": self.name, "route": self.route, "backend": self.backend, "instances": self.total,
             "proved": self.proved, "refuted": self.refuted, "unknown": self.unknown,
             "solver_time_s": round(self.time, 3)}
        if self.desc:
            d["contract"] = self.desc
        if self.exhaustive is not None:
            d["exhaustive"] = self.exhaustive
        if self.domain is not None:
            d["domain"] = self.domain
        if self.notes:
            d["notes"] = self.notes
        return d


class Ctx:
    def __init__(self, pid, tier, seed):
        self.pid, self.tier, self.seed = pid, tier, seed
        self.t0 = time.time()
        self.families: dict[str, Family] = {}
        self.violations: list[Violation] = []
        self.undecided: list[str] = []
        self.functions: dict[str, str] = {}      # qualified name -> sha256 of source segment
        self.assumptions: list[str] = []
        self.trusted: list[str] = []
        self.bounded_notes: list[str] = []
        self.selfcheck: dict = {}
        self.errors: list[str] = []       # obligations on which the machinery itself crashed
        self.extra: dict = {}

    # -- bookkeeping ---------------------------------------------------------------------------
    @property
    def quick(self):
        return self.tier == "quick"

    def family(self, name, route, backend, desc="") -> Family:
        f = self.families.get(name)
        if f is None:
            f = self.families[name] = Family(name, route, backend, desc)
        return f

    def record(self, fam: Family, status, sample=None, dt=0.0, n=1):
        fam.total += n
        fam.time += dt
        if status == PROVED:
            fam.proved += n
        elif status == REFUTED:
            fam.refuted += n
        else:
            fam.unknown += n
        if sample is not None and len(fam.samples) < 3:
            fam.samples.append(sample)

    def violate(self, fam: Family, key, what, replay=None, has_input=True, detail=None):
        self.violations.append(Violation(fam.name, key, what, replay, has_input, detail))

    def undecide(self, fam: Family, what):
        self.undecided.append(f"{fam.name}: {what}")

    def under_contract(self, obj, name=None):
        """Register a repository function/class as being under contract; hash its current source."""
        try:
            src = inspect.getsource(obj)
        except Exception as e:          # pragma: no cover
            raise CheckerError(f"cannot read source of {obj}: {e}")
        qn = name or f"{obj.__module__}.{obj.__qualname__}"
        self.functions[qn] = hashlib.sha256(textwrap.dedent(src).encode()).hexdigest()[:16]
        return obj

    def assume(self, *texts):
        for t in texts:
            if t not in self.assumptions:
                self.assumptions.append(t)

    def trust(self, *texts):
        for t in texts:
            if t not in self.trusted:
                self.trusted.append(t)


# ---- known findings ------------------------------------------------------------------------------

def load_known():
    path = os.path.join(ROOT, "known_findings.jsonl")
    known, fixed = {}, []
    if os.path.exists(path):
        with open(path) as f:
            for line in f:
                line = line.strip()
                if not line or line.startswith("#"):
                    continue
                if line.startswith("fixed:"):
                    fixed.append(line)
                    continue
                e = json.loads(line)
                known.setdefault(e["property"], {})[e["key"]] = e
    return known, fixed


# ---- finishing: evidence, verdict lines, exit code -----------------------------------------------

def finish(ctx: Ctx, level, technique, explanation, checker_cmd):
    known, _fixed = load_known()
    kn = known.get(ctx.pid, {})
    new_viol, known_hit = [], []
    for v in ctx.violations:
        (known_hit if v.key in kn else new_viol).append(v)

    fams = list(ctx.families.values())
    proof_fams = [f for f in fams if f.route in (SYM, GROUND)]
    bounded_fams = [f for f in fams if f.route == BOUNDED]
    obligations = sum(f.total for f in proof_fams)
    discharged = sum(f.proved for f in proof_fams)
    # obligations whose only failures are listed known findings are reported separately
    known_refuted = len([v for v in known_hit])
    samples = []
    for f in fams:
        for s in f.samples[:2]:
            samples.append({"obligation": f.name, "route": f.route, "case": s})
    samples = samples[:40] or [{"note": "no obligations generated"}]
    by_backend = {}
    for f in fams:
        b = by_backend.setdefault(f.backend, {"instances": 0, "time_s": 0.0})
        b["instances"] += f.total
        b["time_s"] = round(b["time_s"] + f.time, 3)
    cov = {
        # obligations refuted by a listed known finding are reported apart (they are violations of the property that are
        # recorded in known_findings.jsonl); "obligations" counts the remaining ones, all of which must be discharged
        "obligations": obligations - known_refuted,
        "discharged": discharged,
        "obligations_including_known_findings": obligations,
        "refuted_known_findings": known_refuted,
        "refuted_new": len([v for v in new_viol]),
        "undecided": len(ctx.undecided),
        "checker_cmd": checker_cmd,
        "trusted_base": ctx.trusted,
        "explanation": explanation,
        "technique": technique,
        "functions_under_contract": ctx.functions,
        "obligation_families": [f.as_json() for f in proof_fams],
        "bounded_standins_not_counted": [f.as_json() for f in bounded_fams] + ctx.bounded_notes,
        "back_ends": by_backend,
        "samples": samples,
        "evaluations": sum(f.total for f in fams),
        "distinct_nontrivial": sum(f.total for f in fams),
        "rule": "one evaluation = one named obligation instance (a contract clause at one point of a completely "
                "enumerated finite domain, or one verification condition over all inputs of a stated shape); "
                "instances are distinct by construction (distinct domain points / distinct VC coordinates)",
        "exhaustive": all(f.exhaustive is not False for f in proof_fams) and bool(proof_fams),
        "self_validation": ctx.selfcheck,
        "undecided_list": ctx.undecided[:50],
    }
    cov.update(ctx.extra)
    ev = {
        "property_id": ctx.pid, "tier": ctx.tier, "seed": ctx.seed, "level": level, "coverage": cov,
        "assumptions": ctx.assumptions, "wall_s": round(time.time() - ctx.t0, 2),
        "violations": len(new_viol),
    }
    # HV_EVIDENCE_DIR: only for the author's evaluation of seeded changes on scratch copies (HV_REPO), so that those runs do not overwrite the evidence of the real tree
    evdir = os.environ.get("HV_EVIDENCE_DIR") if os.environ.get("HV_REPO", "/repo") != "/repo" else None
    evdir = evdir or os.path.join(ROOT, "evidence")
    os.makedirs(evdir, exist_ok=True)
    with open(os.path.join(evdir, f"{ctx.pid}.json"), "w") as f:
        json.dump(ev, f, indent=1, default=str)

    printed = set()
    for v in known_hit:
        if v.key in printed:
            continue
        printed.add(v.key)
        print(f"KNOWN-FINDING: property={ctx.pid} {kn[v.key].get('desc', v.what)[:300]}")
    shown = 0
    for v in new_viol:
        shown += 1
        if shown > 25:
            print(f"... {len(new_viol) - 25} further violations not printed (all in evidence/replays)")
            break
        path = write_replay(ctx, v)
        tail = "" if v.has_input else " no-failing-input-found"
        print(f"VIOLATION property={ctx.pid} replay={path}{tail}")
        print(f"  obligation {v.obligation}: {v.what}")
    for u in ctx.undecided[:20]:
        print(f"UNDECIDED property={ctx.pid} {u}")
    print(f"[{ctx.pid}] tier={ctx.tier} obligations={obligations} discharged={discharged} "
          f"known-findings={len(known_hit)} violations={len(new_viol)} undecided={len(ctx.undecided)} "
          f"wall={ev['wall_s']}s")
    for e in ctx.errors[:5]:
        print(f"CHECKER-ERROR property={ctx.pid} {e[:400]}", file=sys.stderr)
    if new_viol:
        return 1
    if ctx.errors:
        return 3
    if ctx.undecided:
        return 2
    if obligations == 0:
        print("checker error: zero obligations generated", file=sys.stderr)
        return 3
    return 0


def write_replay(ctx: Ctx, v: Violation):
    d = os.path.join(ROOT, "replays", ctx.pid)
    os.makedirs(d, exist_ok=True)
    h = hashlib.sha256((v.obligation + "|" + v.key).encode()).hexdigest()[:10]
    safe = "".join(c if c.isalnum() or c in "._-" else "_" for c in v.obligation)[:60]
    path = os.path.join(d, f"{safe}-{h}.json")
    data = {"property": ctx.pid, "obligation": v.obligation, "key": v.key, "what": v.what,
            "has_failing_input": v.has_input, "input": v.replay, "detail": v.detail,
            "functions": ctx.functions}
    with open(path, "w") as f:
        json.dump(data, f, indent=1, default=str)
    return path


# ---- process pool ------------------------------------------------------------------------------

def ncpu():
    try:
        return max(1, min(16, len(os.sched_getaffinity(0))))
    except Exception:
        return 8


_POOL_FN = None
_POOL_ITEMS = None


def _pool_call(idx):
    try:
        return ("ok", _POOL_FN(_POOL_ITEMS[idx]))
    except CheckerError as e:
        return ("err", "CheckerError: " + str(e))
    except Exception:
        return ("err", traceback.format_exc())


def pmap(fn, items, chunks=None, procs=None):
    """Map fn over items in forked worker processes (fn may be a closure: inherited by fork).
    A traceback in a worker is a checker crash, never a violation."""
    global _POOL_FN, _POOL_ITEMS
    items = list(items)
    procs = procs or ncpu()
    if len(items) <= 1 or procs == 1:
        out = []
        for it in items:
            out.append(fn(it))
        return out
    _POOL_FN = fn
    _POOL_ITEMS = items          # inherited by fork: items and fn need not be picklable, only results
    ctxm = mp.get_context("fork")
    with ctxm.Pool(min(procs, len(items))) as pool:
        res = pool.map(_pool_call, range(len(items)), chunksize=chunks or max(1, len(items) // (procs * 8)))
    _POOL_FN = None
    _POOL_ITEMS = None
    out = []
    for tag, val in res:
        if tag == "err":
            raise CheckerError("worker crashed:\n" + val)
        out.append(val)
    return out


def chunked(seq, k):
    seq = list(seq)
    size = max(1, (len(seq) + k - 1) // k)
    return [seq[i:i + size] for i in range(0, len(seq), size)]
