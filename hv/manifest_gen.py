"""Regenerates MANIFEST.json from the table below (python -m hv.manifest_gen)."""
import json, os
ROOT = os.path.dirname(os.path.dirname(os.path.abspath(__file__)))

TRUST = ("Trusted: CPython/numpy semantics as stated in DESIGN 2.3, our VC generator (pyvc) and ANF/z3 back ends, the "
         "independent oracle (hv/oracle, self-tested every run), background lemmas M1-M9 (DESIGN 2.6), assumed qiskit "
         "contracts Q1-Q6 where the check says so.")

CHECKS = {}   # filled by register()


def register(pid, category, text, note, technique, design_ref):
    CHECKS[pid] = dict(category=category, text=text, note=note, technique=technique, design_ref=design_ref)


register("C17", "proof",
         "Sidecar contracts on StabilizerCircuitInfo/parse_circuit/stabilizer_circuit_lookup and on each table line "
         "(state, class, cost, depth, vocabulary) discharged on the complete finite domain: every non-empty line of every "
         "stabilizer table in the working tree, against an independent tableau simulator and LC-orbit oracle. The property "
         "quantifies over exactly this finite set, so complete enumeration under the contracts is a proof for the tree at hand.",
         TRUST + " qiskit gate-append contract Q3 is observed through the instruction list, not proved.",
         "contract obligations per table line, discharged by exhaustive enumeration (GROUND) against an independent oracle",
         "DESIGN.md 5 (C17)")

register("C18", "proof",
         "Verification conditions generated from the repository's f2_algebra.py (read from the working tree on every run) by "
         "our symbolic interpreter, over ALL bit matrices of each listed shape: whole-function merged VCs for small shapes, a "
         "loop-invariant proof of rref (init / preserve per (h,k) / exit) plus a per-iteration row-space relation decided by ANF "
         "for the library's shapes, rank and null_space verified modularly against rref's contract with a symbolic pivot set, "
         "rref_and_basis_change on small shapes. Discharged by ANF normal form, z3 and cvc5. 'Any shape' is claimed only for the "
         "shapes listed in the evidence (quick: validate shapes and layer-search shapes up to 12 columns; thorough: up to 36x24).",
         TRUST + " Background lemmas M2/M3/M4 lift the proved clauses (RREF form, kernel equality, free-column echelon pattern) to "
         "the property sentence. Random matrices up to 40x30 are a BOUNDED stand-in, not counted.",
         "pyvc VC generation from the real AST + ANF/z3/cvc5; loop invariants; modular callee contracts",
         "DESIGN.md 5 (C18)")

register("C19", "proof",
         "Contracts on Graph.compress/decompress/local_complementation/local_complemented, LCClassN id codec and the linear_index "
         "codecs, discharged on the property's own finite quantifier domain enumerated completely: every simple graph on 2..6 labelled "
         "vertices (x every vertex), every class id, every grouping index; compared with an independent bitmask implementation and an "
         "LC-orbit oracle that also exhibits the local-Clifford witness for each local complementation.",
         TRUST, "contract obligations discharged by exhaustive enumeration of the finite domain (GROUND) against an independent oracle",
         "DESIGN.md 5 (C19)")

register("C05", "proof",
         "Spec function mincost = shortest-path distance in the local-Clifford-class quotient graph (independent oracle). For every class id "
         "of every advertised configuration (complete finite domain) the recorded cost and the cost of the circuit actually delivered for the "
         "class representative are compared with it; all competitor circuits are covered by lemma M8. Gaps carry a witness circuit that is "
         "re-simulated and re-classified by the library itself. The unchanged tree violates the property at 570 listed entries (known findings).",
         TRUST + " M8 (circuit cost = path length in the quotient graph) is an elementary paper lemma; the oracle's BFS and stabilizer-to-graph "
         "reduction are trusted and self-tested.",
         "contract: table cost == spec function (BFS optimum); exhaustive over (configuration, class id); known-findings protocol",
         "DESIGN.md 5 (C05), 6")

E2E_NOTE = (" Each run also re-establishes the pipeline prerequisites (hv/prereq.py): the glue code of stabilizer_circuits verified against callee contracts as "
            "uninterpreted terms (all n), the layer-search segment contracts (all inputs, n<=6) and purity of the pipeline functions. The sign-free pipeline is covered for all inputs by the contract chain C06 (class id) -> C17 (table entry) -> C16 (layer search sound and "
            "complete, gate word) with lemma K4; the top-level contract is additionally evaluated by the independent tableau oracle on completely "
            "enumerated domains for n<=3 (n<=4 thorough: all 2295 groups x all 16 sign vectors x 4 connectivities) and on every class with seeded "
            "members for n=5,6 (labelled BOUNDED in the evidence, not counted).")

register("C01", "proof",
         "Top-level postcondition of get_preparation_circuit transcribed from the property (each given signed Pauli lies with sign + in the signed "
         "stabilizer group of circuit|0>), decided by an independent signed-tableau oracle." + E2E_NOTE +
         " The sign-repair step (rotate_stabilizer_into_state, synth_circuit_from_stabilizers) is interpreted by pyvc with SYMBOLIC sign bits against contract "
         "stubs of the qiskit names it uses (Q1-Q3 through the oracle): the returned circuit is a fixed Clifford circuit plus X gates guarded by XOR-affine "
         "conditions, and 'every requested signed Pauli is in the signed group of the result' is an XOR-affine identity decided by normal form - one run covers ALL "
         "2^n sign vectors of a generator list (all groups n<=4 on every configuration; every class with seeded members for n=5,6). The stubs are compared with the "
         "real qiskit run on every fourth case.",
         TRUST + " Q1-Q3 are assumed contracts of qiskit, now explicit as stubs (validated against qiskit each run). For n=5,6 groups/generating sets are seeded members "
         "of every class, not all groups.",
         "pyvc with symbolic signs against dependency contract stubs (all sign vectors per run) + top-level contract vs tableau oracle, exhaustive groups n<=4",
         "DESIGN.md 5 (C01, C03)")

register("C03", "proof",
         "Top-level postcondition of get_readout_circuit (every group element conjugates to a Z-type Pauli; inverse prepares the state mod signs) "
         "decided by the oracle on ALL stabilizer groups for n<=4 (n<=5 thorough); sign-independence proved as a frame condition by running the "
         "real function on a Stabilizer whose .phases raises (representation hiding)." + E2E_NOTE,
         TRUST + " Q3 assumed.", "top-level contract vs tableau oracle on all groups n<=4(5); frame by representation-hiding stub", "DESIGN.md 5 (C01, C03)")

register("C04", "proof",
         "Cost/depth of every delivered preparation and readout circuit equals the lookup metadata of the oracle-determined LC class (so members of a "
         "class agree), metadata equals the table circuit's actual count/depth for all 7326 entries, and the preparation circuit is (X gates) followed "
         "by the inverse readout circuit (sign repair adds no two-qubit gate)." + E2E_NOTE,
         TRUST + " M9 (depth invariant under reversal / single-qubit gates).", "cost/depth contract vs lookup metadata; exhaustive n<=4 + all table entries", "DESIGN.md 5 (C04)")

register("C02", "proof",
         "Coupling graphs equal the documented edge table (all 20), every table and MUB circuit keeps its two-qubit gates on edges (all lines), the layer "
         "synthesiser emits only single-qubit gates (all blocks x positions), and every circuit produced on the C01 domain, by compression and by the "
         "tomography composition onto measured-qubit lists is scanned. Lemma: delivered = table circuit + single-qubit gates, possibly inverted.",
         TRUST + " Q3/Q4 (compose/inverse/InverseCancellation keep qubit pairs) observed, not proved; measured-qubit lists seeded (bounded).",
         "frame contracts + exhaustive enumeration of tables/MUB files/coupling graphs; end-to-end scan", "DESIGN.md 5 (C02)")

register("C07", "other",
         "The property quantifies over all gate sequences of unbounded length. Within this family it is decided as: a frame obligation on the real AST "
         "(the argument is used only through Stabilizer(circuit) and as the sign reference), which reduces the claim to C01/C02/C04 for all signed "
         "stabilizer states UNDER the assumed qiskit contract Q1 (StabilizerState tableau semantics). Q1 and the top-level contract are evaluated by the "
         "oracle on all circuits of <=2 gates on 2-3 qubits and on seeded long circuits for all 20 configurations (bounded).",
         "Q1 is an assumed contract of a dependency, validated only on the listed circuits; the unbounded quantifier is therefore proved relative to Q1 only.",
         "frame obligation + reduction lemma under assumed dependency contract; exhaustive small / seeded long circuits against tableau oracle", "DESIGN.md 5 (C07)")

TOMO = ("The fitter's control flow is concrete once circuit and qubit list are fixed; the real code is executed on symbolic count objects (exact linear "
        "forms, one symbol per outcome; branching on one raises) and every returned value - an exact quotient of linear forms - is compared by normal "
        "form with sigma*sum_b(-1)^(s.b)c_b/sum_b c_b where U P U^dagger = sigma Z^s comes from the independent tableau oracle. Both sides are linear in "
        "the outcome distribution, so by M7 the equality holds for every density matrix without sampling states. ")

register("C09", "proof",
         "Contracts on get_mubs/get_mub_circuits/get_mub_info/MUBInfo discharged on the complete finite domain: 20 files x all 2^n+1 bases x all 2^n group "
         "elements (validity, exact-count partition of the 4^n-1 Paulis, diagonalisation by the oracle, alignment with the file lines by an independent "
         "reader, info arithmetic, cost <= the library's own readout circuit).", TRUST, "exhaustive enumeration under contracts (GROUND) + tableau oracle", "DESIGN.md 5 (C09)")

register("C10", "proof", TOMO + "All 20 configurations, all 2^n+1 circuits, all outcome masks; the density-matrix map is linear in the values and checked on every basis "
         "vector e_P (n<=4 quick, n<=5 thorough). A relational family carries the contract from the empty preparation circuit to other representations of a preparation "
         "circuit (gates, user metadata, circuits descending from earlier library measurement circuits): same readout part, same readout info, same fitter values (seeded, bounded).", TRUST + " Exact statistics; floats treated as reals; Q2/Q5/Q6 assumed (misreadings surface as refuted obligations).",
         "native symbolic execution over exact linear forms + normal-form comparison with oracle pull-back", "DESIGN.md 5 (C10-C12)")

register("C11", "proof", TOMO + "Marginalisation contract of CircuitResult.__init__ discharged on all keys of N<=5 bits x all ordered qubit subsets; subset tomography and "
         "stabilizer measurement over the full 2^N outcome space for N=3..5, all ordered 2- and 3-subsets (some seeded), both key modes; key embedding for m=5,6 on ALL "
         "ordered 5-lists of 6 qubits (thorough: all 5- and 6-lists of 7) plus structured lists up to N=8; preparation-circuit representations as in C10, also with measured-qubit lists.",
         TRUST + " N<=5 (6 thorough); exact statistics; Q2/Q5/Q6 assumed.", "exhaustive marginalisation contract + native symbolic execution over linear forms", "DESIGN.md 5 (C10-C12)")

register("C12", "proof", TOMO + "Pipeline prerequisites (readout circuit exists and is correct for every valid stabilizer) are re-established each run. Every class of every configuration (one seeded signed member each; all classes for n<=5 in quick, 120 per 6-qubit configuration), keys must be "
         "exactly the unsigned elements of the given group; preparation-circuit representations as in C10.", TRUST + " Exact statistics; Q2/Q5/Q6 assumed; other members of a class via C03.",
         "native symbolic execution over exact linear forms + normal-form comparison with oracle pull-back", "DESIGN.md 5 (C10-C12)")

register("C13", "proof",
         "Frame / ownership contracts per call: deep argument snapshots, heap separation of every result from module state (caches, pass manager, class "
         "tables) by a reachability walk, an AST inventory of module-level mutable state and cache writes, and an AST determinism scan - on every public entry "
         "point and every advertised configuration. A short lemma lifts them to all interleavings of calls and caller-side mutations; the behavioural "
         "consequence (mutate an earlier result, call again; cold vs warm cache) is checked directly.",
         TRUST + " The histories quantifier is reached through the lemma, not enumerated; the cross-process clause compares two processes only (bounded).",
         "frame/ownership contracts (argument snapshots, heap separation, module-state inventory) + lemma over histories", "DESIGN.md 5 (C13)")

register("C14", "proof",
         "Format contracts of Stabilizer.__init__/to_list discharged exhaustively: every signed generator string (3*4^n per n, every position) with the column "
         "frame of the parsing loop checked on the AST, all two-string lists for n=2, export/round-trip/mirror, malformed input rejection; graph format on all "
         "graphs n<=5 (6 thorough); circuit format relative to assumed Q1 (exhaustive for <=2 gates on <=3 qubits, on seven circuit representations: register layouts and circuits "
         "carrying a transpiler layout with a final qubit permutation).",
         TRUST + " Circuit format rests on assumed Q1; cross-format and long circuits seeded (bounded).",
         "exhaustive enumeration under contracts (GROUND) + AST frame", "DESIGN.md 5 (C14)")

register("C15", "proof",
         "Verification conditions generated from the real Stabilizer.expand / is_qubit_entangled / is_equivalent_mod_phase / __eq__ (pyvc) over ALL R/S bit "
         "matrices for n=1..6, discharged by folding/ANF/z3, plus a spec-level recombination lemma (z3). Background lemma M1 lifts the definitional "
         "postconditions to the property sentence; because M1 is trusted, the sentence itself is cross-checked on ALL stabilizer groups n<=4 (5 thorough) x all "
         "qubits and ALL pairs of groups n<=3 against canonical forms / weight-one elements from the oracle; purity (AST) and edited-object obligations guard against memoisation.",
         TRUST + " M1 trusted; pairs for n>=4 stratified (bounded).", "pyvc VCs from the real methods + z3; exhaustive group-level cross-check (GROUND)", "DESIGN.md 5 (C15)")

register("C08", "proof",
         "Stabilizer.validate proved (pyvc, modular over f2.rank's contract) to accept exactly the independent commuting sets for all R/S, n=1..6; the configuration "
         "gate proved for ALL integers and ALL strings by running the real function on representation-hiding proxies (integer regions between its own literals, an "
         "opaque string - withdrawn if the name is used beyond ==/!=/membership in a display of literals); every public entry point x n in 1..8 x every documented name, every substring / "
         "case / padding variant of one, junk names and every name with a table file rejects exactly the unadvertised pairs; ALL 2^8 two-qubit X/Z matrix pairs (thorough: all "
         "2^18 three-qubit pairs) give raise-or-correct for preparation and readout.",
         TRUST + " Invalid inputs for larger n are structured+seeded (bounded); the general claim is the lemma over C16 soundness and validate.",
         "pyvc VC (modular callee contract) + representation-hiding proxies + exhaustive enumeration", "DESIGN.md 5 (C08)")

register("C16", "proof",
         "find_local_clifford_layer is cut into segments on the real AST and each segment's contract is proved for ALL inputs of every shape 1<=m<=n<=6 (7 thorough): "
         "the linearity identity Rs*row = check_LC-LHS(A(row)) by ANF normal form, the basis/filter bijection, the span construction, the row-loop body (returns iff all "
         "blocks invertible, returned blocks = A(row)), the gate-word synthesis (raises iff not invertible, word action = block) and check_LC itself; with null_space's "
         "contract from C18 a five-line lemma gives soundness (without validity precondition) and completeness. The top-level contract is cross-checked against brute "
         "force over all 6^n layers on ALL (group or sub-list, graph) pairs for n<=3 incl. lists with a dependent operator (every span element at every position), every 4-qubit class x all 64 graphs, and ALL 6^5 members of 5-qubit classes "
         "without local symmetry (where the search must find one specific layer).",
         TRUST + " 'Any n' is claimed for n<=6 (7) only; itertools.product contract assumed; M6 gate actions.",
         "pyvc segment VCs (ANF + z3) on the real AST + lemma; brute-force GROUND cross-check", "DESIGN.md 5 (C16)")

register("C06", "proof",
         "Frame obligation by representation hiding: the real determine_lc_class<n> is run on a stub that physically holds only the support-pattern multiset of the group "
         "and the entangled flags (any other access raises) for the data of every LC orbit representative (878), returning the filed id - so the id is a function of "
         "LC-invariant data, independent of signs and generators. With the round trip on all 878 ids and the oracle's orbit count K = 2,5,18,93,760 a counting lemma gives "
         "the bijection orbit <-> id. Independent cross-check: every stabilizer group for n<=5 (75735 five-qubit groups; all 4922775 six-qubit groups in the thorough "
         "tier, count-checked) and every graph state on 2..6 vertices is classified by the real classifier and compared with the oracle's orbit. Purity (AST) and "
         "edited-object obligations (systematic edits on every qubit of every class) guard against memoisation.",
         TRUST + " Quick tier n=6: first half of M5 (every stabilizer state is LC-equivalent to a graph state) is trusted; thorough replaces it by enumeration.",
         "representation-hiding frame run of the real code + counting lemma; exhaustive classification (GROUND) against LC-orbit oracle", "DESIGN.md 5 (C06)")

NOT_APPLICABLE = []   # every property is claimed; sub-claims outside the family's reach are labelled in the evidence


def build():
    checks = []
    for pid in sorted(CHECKS):
        c = CHECKS[pid]
        checks.append({
            "property_id": pid,
            "quick_cmd": f"./check {pid} --tier quick",
            "thorough_cmd": f"./check {pid} --tier thorough",
            "evidence_file": f"/verif/evidence/{pid}.json",
            "replay_cmd_template": f"./check {pid} --replay {{path}}",
            "engine": "hv",
            "level_claimed": {"category": c["category"], "text": c["text"], "design_ref": c["design_ref"]},
            "level_note": c["note"],
            "technique": c["technique"],
        })
    claimed = set(CHECKS)
    na = [e for e in NOT_APPLICABLE if e["property_id"] not in claimed]
    allp = [json.loads(l)["id"] for l in open(os.path.join(ROOT, "properties.jsonl"))]
    for p in allp:
        if p not in claimed and p not in {e["property_id"] for e in na}:
            na.append({"property_id": p, "reason": "check not built yet in this revision (work in progress; planned in DESIGN.md 5)"})
    return {
        "version": 1,
        "setup_cmd": "./setup.sh",
        "hooks": {
            "guard": "HTSTABILIZER_VERIF",
            "enable": "no source hooks exist: contracts are sidecar files under /verif/hv/contracts and stubs are installed in the "
                      "verifier process only; ./check exports HTSTABILIZER_VERIF=1 (reserved, unused by /repo)",
            "baseline_off_cmd": "cd /repo && /venv/bin/python -m pytest -ra -q -p no:cacheprovider --timeout=900 --continue-on-collection-errors",
            "source_commits": [],
            "add_only": True,
        },
        "engines": [{"name": "hv", "path": "/verif/hv", "serves_properties": sorted(CHECKS),
                     "kind_free_text": "contract-based deductive verification: sidecar contracts on the real functions; "
                                       "verification conditions generated from the repository AST by our symbolic interpreter "
                                       "(pyvc) and discharged by ANF normal form / z3 / cvc5 (SYM), or discharged by complete "
                                       "enumeration of a finite domain under the contracts (GROUND); bounded stand-ins labelled BOUNDED"}],
        "checks": checks,
        "not_applicable": na,
        "notes": "See DESIGN.md. Exit codes: 0 held, 1 violation, 2 undecided, 3 checker crash.",
    }


if __name__ == "__main__":
    m = build()
    with open(os.path.join(ROOT, "MANIFEST.json"), "w") as f:
        json.dump(m, f, indent=1)
    import jsonschema
    jsonschema.validate(m, json.load(open("/root/.vp/MANIFEST.schema.json")))
    print("MANIFEST.json written:", len(m["checks"]), "checks,", len(m["not_applicable"]), "not_applicable")
