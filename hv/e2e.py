"""End-to-end contract evaluation of the circuit APIs on (configuration, signed stabilizer) domains.

One evaluation runs the real get_preparation_circuit / get_readout_circuit on one signed generating set and evaluates the
top-level postconditions (transcribed from the property statements C01-C04, C13) with the independent oracle.

Domains (sizes are measured and reported by the caller):
   n<=3 : ALL stabilizer groups x ALL 2^n sign vectors x ALL advertised connectivities (+ all generating sets in thorough)
   n=4  : ALL 2295 groups x seeded signs (quick) / ALL 16 sign vectors (thorough) x 4 connectivities
   n=5,6: every class representative and seeded local-Clifford images x seeded signs (BOUNDED for the sign step; the sign-free
          pipeline is covered for all inputs by the SYM/GROUND chain C06, C16, C17 - see DESIGN 5)
"""
from __future__ import annotations
import itertools, random
import numpy as np
from . import adapt, core
from .oracle import pauli as P, graphs as G, docs


def class_id_of_orbit(n):
    """oracle orbit index -> library class id, via the representative graphs LCClass<n>(k).get_graph() (C06 proves the bijection)"""
    import htstabilizer.lc_classes as lcc
    LC = {2: lcc.LCClass2, 3: lcc.LCClass3, 4: lcc.LCClass4, 5: lcc.LCClass5, 6: lcc.LCClass6}[n]
    orbit_of, reps = G.orbit_table(n)
    m = {}
    for k in range(docs.CLASS_COUNT[n]):
        g = LC(k).get_graph()
        adj = tuple(sum((int(g.adjacency_matrix[i, j]) & 1) << j for j in range(n)) for i in range(n))
        m[orbit_of[G.id_from_adj(n, adj)]] = k
    return m


_CID = {}


def cid_map(n):
    if n not in _CID:
        _CID[n] = class_id_of_orbit(n)
    return _CID[n]


def mk_stabilizer(n, gens, fmt="matrix"):
    from htstabilizer.stabilizer import Stabilizer
    if fmt == "matrix":
        R, S, ph = adapt.matrices_from_gens(n, gens)
        return Stabilizer((R, S, ph))
    if fmt == "matrix-f":            # same data in Fortran memory order / as a slice of a larger array (the constructor keeps the caller's int8 arrays)
        R, S, ph = adapt.matrices_from_gens(n, gens)
        big = np.zeros((n + 1, n + 2), dtype=np.int8)
        big[1:, 1:n + 1] = S
        return Stabilizer((np.asfortranarray(R), big[1:, 1:n + 1], ph))
    if fmt == "matrix-wide":         # the same 0/1 matrices with other element types: int64 X matrix, bool Z matrix, uint8 sign vector
        R, S, ph = adapt.matrices_from_gens(n, gens)
        return Stabilizer((R.astype(np.int64), S.astype(bool), ph.astype(np.uint8)))
    if fmt == "strings":
        return Stabilizer([P.to_label(n, g) for g in gens])
    if fmt == "strings-nosign":      # '+' may be omitted
        return Stabilizer([P.to_label(n, g)[1:] if not g[2] else P.to_label(n, g) for g in gens])
    raise ValueError(fmt)


def snapshot(st):
    return (np.array(st.R, copy=True), np.array(st.S, copy=True), np.array(st.phases, copy=True), st.num_qubits)


def same_snapshot(st, snap):
    return np.array_equal(st.R, snap[0]) and np.array_equal(st.S, snap[1]) and np.array_equal(st.phases, snap[2]) and st.num_qubits == snap[3]


class _CancelMonitor:
    """assumption monitor for Q4: wraps the library's pass manager in the verifier process and checks, on every call made by the library, what the lemmas use of it:
    the output implements the same Clifford as the input (conjugation action on every X_i, Z_i incl. signs), its multi-qubit gates are exactly the input's, in the same
    order on every qubit, it is not longer than the input, and the input object is left unchanged.  (Which single-qubit gates are cancelled is the library's business.)"""

    def __init__(self, real):
        self.real = real
        self.calls = 0
        self.bad = []

    def run(self, circuit, *a, **k):
        before = adapt.gates_of(circuit)
        out = self.real.run(circuit, *a, **k)
        after_in = adapt.gates_of(circuit)
        got = adapt.gates_of(out)
        self.calls += 1
        if after_in != before or not _is_sound_reduction(before, got, circuit.num_qubits) or out is circuit:
            self.bad.append((before, got))
        return out


def _is_sound_reduction(src, dst, n):
    def multi(gl):            # per qubit: the multi-qubit gates touching it, in order (gates on disjoint qubits may be listed in any order: same circuit DAG)
        per = {}
        for nm, qs in gl:
            if len(qs) > 1 and nm not in P.IGNORED:
                for q in qs:
                    per.setdefault(q, []).append((nm, tuple(qs)))
        return per
    if multi(src) != multi(dst) or len([g for g in dst if g[0] not in P.IGNORED]) > len([g for g in src if g[0] not in P.IGNORED]):
        return False
    for q in range(n):
        for p in ((1 << q, 0, 0), (0, 1 << q, 0)):
            if P.conj_circuit(p, src) != P.conj_circuit(p, dst):
                return False
    return True


def _is_hh_reduction(src, dst):
    """dst is obtained from src by repeatedly deleting two H gates on one qubit with no other gate on that qubit between them"""
    per_src, per_dst = {}, {}
    for lst, per in ((src, per_src), (dst, per_dst)):
        for idx, (nm, qs) in enumerate(lst):
            for q in qs:
                per.setdefault(q, []).append((nm, tuple(qs)))
    # per-qubit sequences: reduce src's by cancelling adjacent h,h and compare with dst's reduced form; order of gates on different qubits is irrelevant for
    # the semantics as long as every multi-qubit gate keeps its relative position on each of its qubits
    def reduce(seq):
        out = []
        for g in seq:
            if out and g[0] == "h" and out[-1] == g:
                out.pop()
            else:
                out.append(g)
        return out
    qs = set(per_src) | set(per_dst)
    return all(reduce(per_src.get(q, [])) == reduce(per_dst.get(q, [])) for q in qs) and len(dst) <= len(src)


_MONITOR = [None]


def install_monitor():
    import htstabilizer.stabilizer_circuits as sc
    if not isinstance(sc.single_qubit_gate_canceller, _CancelMonitor):
        sc.single_qubit_gate_canceller = _CancelMonitor(sc.single_qubit_gate_canceller)
    _MONITOR[0] = sc.single_qubit_gate_canceller
    return _MONITOR[0]


def eval_state(job):
    """job = (n, conn, gens(list of (x,z,s)), fmt, orbit or None) -> list of (family, ok, key, what, replay)"""
    n, conn, gens, fmt, orbit = job[:5]
    parts = job[5] if len(job) > 5 else ("prep", "readout")
    from htstabilizer.stabilizer_circuits import get_preparation_circuit, get_readout_circuit
    import htstabilizer.circuit_lookup as cl
    edges = set(docs.coupling_edges(n, conn))
    label = [P.to_label(n, g) for g in gens]
    rp = {"n": n, "connectivity": conn, "paulis": label, "format": fmt,
          "python": f"from htstabilizer.stabilizer_circuits import *; get_preparation_circuit(Stabilizer({label}), {conn!r})"}
    key = f"{n}:{conn}:{','.join(label)}:{fmt}"
    out = []

    def rec(fam, ok, what):
        out.append((fam, bool(ok), f"{fam}:{key}", what, rp))

    mon = install_monitor()
    calls0, bad0 = mon.calls, len(mon.bad)
    st = mk_stabilizer(n, gens, fmt)
    snap = snapshot(st)
    circuits = []
    if "prep" in parts:
        out += _eval_prep(n, conn, gens, label, st, snap, rec, circuits)
    if "readout" in parts:
        out += _eval_readout(n, conn, gens, label, st, snap, rec, circuits)
    rec("Q4.monitor.cancellation_preserves_unitary_and_two_qubit_gates", len(mon.bad) == bad0,
        f"single-qubit gate cancellation on {label} {n}-{conn}: the output is not the same Clifford with the same multi-qubit gates (or the input was modified): {mon.bad[bad0:bad0 + 1]}")
    if not circuits:
        return out
    # connectivity
    for nm, gl in circuits:
        pairs = P.two_qubit_pairs(gl)
        okc = all(len(q) == 2 and tuple(sorted(q)) in edges for _, q in pairs)
        rec(f"C02.pairs_on_edges.{nm}", okc, f"{nm} circuit for {label} on {n}-{conn} has a multi-qubit gate off the coupling graph: "
            f"{[p for p in pairs if len(p[1]) != 2 or tuple(sorted(p[1])) not in edges][:3]}")
    # cost / depth vs metadata of the class (class decided by the oracle)
    if orbit is None:
        orbit = G.classify(n, gens)
    cid = cid_map(n).get(orbit)
    if cid is None:
        rec("C04.cost_depth_eq_metadata.class_known", False, f"{label} on {n}-{conn}: no class id has its representative graph in the state's LC orbit (orbit {orbit})")
        return out
    info = cl.stabilizer_circuit_lookup(n, conn, cid)
    for nm, gl in circuits:
        c, d = P.two_qubit_cost(gl), P.two_qubit_depth(n, gl)
        rec(f"C04.cost_depth_eq_metadata.{nm}", (c, d) == (info.cost, info.depth),
            f"{nm} circuit for {label} on {n}-{conn} (class id {cid}): cost/depth {(c, d)} differ from lookup metadata {(info.cost, info.depth)}")
    if len(circuits) == 2:
        prep, ro = circuits[0][1], circuits[1][1]
        # property sentence "single-qubit and sign corrections never add a two-qubit gate": the signed preparation circuit costs exactly what the (sign-independent)
        # readout circuit costs - which gates implement the corrections is the library's business
        rec("C04.corrections_add_no_two_qubit_gate", P.two_qubit_cost(prep) == P.two_qubit_cost(ro),
            f"preparation circuit for {label} on {n}-{conn} has {P.two_qubit_cost(prep)} two-qubit gates, the readout circuit of the same state {P.two_qubit_cost(ro)}")
    return out


def _eval_prep(n, conn, gens, label, st, snap, rec, circuits):
    from htstabilizer.stabilizer_circuits import get_preparation_circuit
    try:
        prep = adapt.gates_of(get_preparation_circuit(st, conn))
    except Exception as e:
        rec("C01.prep.noraise", False, f"get_preparation_circuit raised {type(e).__name__}: {e} for valid stabilizer {label} on {n}-{conn}")
        return []
    circuits.append(("prep", prep))
    rec("C01.prep.noraise", True, "")
    rec("C13.args_unmodified.prep", same_snapshot(st, snap), f"get_preparation_circuit modified its Stabilizer argument {label}")
    cg = P.canon(n, P.state_generators(n, prep))
    signs = [P.member_sign(n, cg, g) for g in gens] if cg is not None else [None] * n
    rec("C01.prep.state_exact", all(s is not None and s == g[2] for s, g in zip(signs, gens)),
        f"preparation circuit for {label} on {n}-{conn}: the prepared state's stabilizer group contains the given (unsigned) Paulis with sign bits "
        f"{signs} (None = not in group), requested sign bits {[g[2] for g in gens]}")
    return []


def _eval_readout(n, conn, gens, label, st, snap, rec, circuits):
    from htstabilizer.stabilizer_circuits import get_readout_circuit
    try:
        ro = adapt.gates_of(get_readout_circuit(st, conn))
    except Exception as e:
        rec("C03.readout.noraise", False, f"get_readout_circuit raised {type(e).__name__}: {e} for valid stabilizer {label} on {n}-{conn}")
        return []
    circuits.append(("readout", ro))
    rec("C03.readout.noraise", True, "")
    rec("C13.args_unmodified.readout", same_snapshot(st, snap), f"get_readout_circuit modified its Stabilizer argument {label}")
    els = P.group_elements(n, gens) if n <= 4 else gens
    diag = all(P.conj_circuit(e, ro)[0] == 0 for e in els)
    rec("C03.readout.diagonalises", diag, f"readout circuit for {label} on {n}-{conn} leaves an X component on some group element")
    inv_state = P.canon_unsigned(n, P.state_generators(n, P.inverse_gates(ro)))
    rec("C03.readout.inverse_prepares", inv_state == P.canon_unsigned(n, gens),
        f"inverse of the readout circuit for {label} on {n}-{conn} does not prepare the stabilizer state (mod signs)")
    return []


def sign_vectors(n):
    return list(itertools.product((0, 1), repeat=n))


def with_signs(rows, sv):
    return [(x, z, s) for (x, z), s in zip(rows, sv)]


def generator_changes(n, rows, rnd, count):
    """`count` random invertible recombinations of unsigned generators (list of (x,z))"""
    outs = []
    for _ in range(count):
        cur = list(rows)
        for _ in range(3 * n):
            a, b = rnd.sample(range(n), 2)
            cur[a] = (cur[a][0] ^ cur[b][0], cur[a][1] ^ cur[b][1])
        rnd.shuffle(cur)
        outs.append(cur)
    return outs


def weighted_generating_set(n, rows, rnd, heavy=True):
    """a generating set made of the HEAVIEST (or lightest) group elements: elements sorted by Pauli weight (ties seeded), independent ones picked greedily.  Heavy sets
    make every pairwise product act on many qubits at once - the inputs on which product-sign / phase bookkeeping differs from the generic case."""
    els = []
    for mask in range(1, 1 << n):
        x = z = 0
        for i in range(n):
            if (mask >> i) & 1:
                x ^= rows[i][0]
                z ^= rows[i][1]
        els.append((x, z))
    rnd.shuffle(els)
    els.sort(key=lambda p: bin(p[0] | p[1]).count("1"), reverse=heavy)
    basis, picked = [], []
    for x, z in els:
        v = x | (z << n)
        for b in basis:
            v = min(v, v ^ b)
        if v:
            basis.append(v)
            picked.append((x, z))
            if len(picked) == n:
                break
    rnd.shuffle(picked)
    return picked


def all_generating_sets(n, key):
    """all ordered bases of the group given by canonical key (n <= 3)"""
    rows = G.rows_from_key(n, key)
    els = []
    for mask in range(1, 1 << n):
        x = z = 0
        for i in range(n):
            if (mask >> i) & 1:
                x ^= rows[i][0]
                z ^= rows[i][1]
        els.append((x, z))
    outs = []
    for combo in itertools.permutations(els, n):
        if G.canon_keys(n, list(combo)) is not None:
            outs.append(list(combo))
    return outs


def signed_commuting(n, rows, sv):
    """signed generators: the sign bit is free for independent commuting generators"""
    return with_signs(rows, sv)


def build_jobs(ctx, nmax=6, parts=("prep", "readout")):
    """the (configuration, signed stabilizer) domain of this tier. Returns (jobs, description dict)"""
    rnd = random.Random(ctx.seed * 7919 + 1)
    q = ctx.quick
    jobs = []
    desc = {}
    for n, conn in docs.ADVERTISED:
        if n > nmax:
            continue
        cnt = 0
        if n <= 3:
            groups = G.all_groups(n)
            for key, orb in groups.items():
                rows = G.rows_from_key(n, key)
                if n == 2:
                    gsets = all_generating_sets(n, key)               # all 6 ordered bases
                elif q:
                    gsets = [rows] + generator_changes(n, rows, rnd, 2)
                else:
                    gsets = all_generating_sets(n, key)[::7]          # every 7th of the 168 ordered bases
                for gs in gsets:
                    for sv in sign_vectors(n):
                        jobs.append((n, conn, with_signs(gs, sv), ("strings", "matrix", "matrix-f", "matrix-wide", "strings-nosign")[cnt % 5], orb))
                        cnt += 1
            desc[f"{n}-{conn}"] = (f"all {len(groups)} groups x all {2 ** n} sign vectors x "
                                   f"{'all ordered generating sets' if n == 2 else ('3 generating sets' if q else '24 of 168 ordered generating sets')}: {cnt} cases")
        elif n == 4:
            groups = G.all_groups(4)
            svs = sign_vectors(4)
            for key, orb in groups.items():
                rows = G.rows_from_key(n, key)
                if rnd.random() < 0.5:
                    rows = generator_changes(n, rows, rnd, 1)[0]
                use = svs if not q else [rnd.choice(svs)]
                for sv in use:
                    jobs.append((n, conn, with_signs(rows, sv), ("matrix", "matrix-f", "matrix-wide")[cnt % 3], orb))
                    cnt += 1
            # all signs for one member of every class (quick tier too)
            if q:
                seen = set()
                for key, orb in groups.items():
                    if orb in seen:
                        continue
                    seen.add(orb)
                    for sv in svs:
                        jobs.append((n, conn, with_signs(G.rows_from_key(n, key), sv), "strings", orb))
                        cnt += 1
            desc[f"{n}-{conn}"] = f"all 2295 groups x {'all 16' if not q else '1 seeded'} sign vector(s) (+ all 16 signs for one member per class): {cnt} cases"
        else:
            orbit_of, reps = G.orbit_table(n)
            layers = 2 if q and n == 5 else (1 if q else 3)
            nsig = (3 if n == 5 else 2) if q else (2 ** n if n == 5 else 16)      # thorough: ALL 32 sign vectors at n=5, 16 seeded at n=6
            for orb, gid in enumerate(reps):
                rows0 = [(x, z) for x, z, _ in G.graph_state_gens(n, G.adj_from_id(n, gid))]
                variants = [rows0]
                for _ in range(layers):
                    layer = [rnd.randrange(6) for _ in range(n)]
                    variants.append(generator_changes(n, G.apply_layer_unsigned(n, rows0, layer), rnd, 1)[0])
                if q and n == 6:
                    variants = variants[1:]
                for rows in variants:
                    svs = sign_vectors(n) if nsig == 2 ** n else [tuple(rnd.randrange(2) for _ in range(n)) for _ in range(nsig)]
                    for sv in svs:
                        jobs.append((n, conn, with_signs(rows, sv), ("strings", "matrix", "matrix-f", "matrix", "matrix-wide", "strings-nosign")[cnt % 6], orb))
                        cnt += 1
            desc[f"{n}-{conn}"] = f"every class ({len(reps)}) x {layers + (0 if q and n == 6 else 1)} members (seeded local Clifford layers, seeded generator changes) x {'all ' + str(nsig) if nsig == 2 ** n else str(nsig) + ' seeded'} sign vectors: {cnt} cases (BOUNDED in members/signs)"
    return [j + (parts,) for j in jobs], desc


def book(ctx, results, prefixes, route_of):
    """book the records whose family starts with one of `prefixes` into ctx"""
    from .core import PROVED, REFUTED
    for res in results:
        for fam_name, ok, key, what, rp in res:
            if not fam_name.startswith(prefixes):
                continue
            n = rp["n"]
            route = route_of(fam_name, n)
            fname = fam_name if route != core.BOUNDED else fam_name + ".n5_6_bounded"
            fam = ctx.family(fname, route, "native+oracle")
            fam.exhaustive = route != core.BOUNDED
            ctx.record(fam, PROVED if ok else REFUTED, {"n": n, "connectivity": rp["connectivity"], "paulis": rp["paulis"]} if fam.total < 2 or not ok else None)
            if not ok:
                ctx.violate(fam, key, what, rp)
