"""Adapters between repository / qiskit objects and the oracle's plain data."""
from __future__ import annotations
import glob, os, re
import numpy as np
from . import core


def gates_of(qc):
    """[(name, [qubit indices])] of a qiskit QuantumCircuit (instruction order)."""
    out = []
    for inst in qc.data:
        out.append((inst.operation.name, [qc.find_bit(q).index for q in inst.qubits]))
    return out


SYMMETRIC_GATES = ("cz", "swap")


def circuit_key(gates):
    """the circuit as a DAG: for every qubit the sequence of gates touching it (operands of the symmetric gates cz / swap unordered; barriers ignored).  Two gate
    lists with the same key are the same circuit - listing order of gates on disjoint qubits and the operand order of a symmetric gate carry no meaning."""
    per = {}
    for nm, qs in gates:
        if nm == "barrier":
            continue
        g = (nm, tuple(sorted(qs)) if nm in SYMMETRIC_GATES else tuple(qs))
        for q in qs:
            per.setdefault(q, []).append(g)
    return {q: tuple(v) for q, v in per.items()}


def same_text(a, b):
    return " ".join(str(a).split()) == " ".join(str(b).split())


def gens_of_stabilizer(st):
    """Oracle generators (x, z, s) of a repository Stabilizer: generator j = column j of R / S."""
    n = st.num_qubits
    R, S, ph = np.asarray(st.R), np.asarray(st.S), np.asarray(st.phases)
    gens = []
    for j in range(n):
        x = sum((int(R[q, j]) & 1) << q for q in range(n))
        z = sum((int(S[q, j]) & 1) << q for q in range(n))
        gens.append((x, z, int(ph[j]) & 1))
    return gens


def matrices_from_gens(n, gens):
    R = np.zeros((n, n), dtype=np.int8)
    S = np.zeros((n, n), dtype=np.int8)
    ph = np.zeros(n, dtype=np.int8)
    for j, (x, z, s) in enumerate(gens):
        for q in range(n):
            R[q, j] = (x >> q) & 1
            S[q, j] = (z >> q) & 1
        ph[j] = s
    return R, S, ph


DATA = os.path.join(core.SRC, "data")
_FN = re.compile(r"^(stabilizer|mub)(\d+)-([A-Za-z]+)\.txt$")


def data_files(kind):
    """[(n, connectivity, path)] of data/<kind><n>-<conn>.txt in the working tree."""
    out = []
    for p in sorted(glob.glob(os.path.join(DATA, f"{kind}*.txt"))):
        m = _FN.match(os.path.basename(p))
        if m and m.group(1) == kind:
            out.append((int(m.group(2)), m.group(3), p))
    return out


def read_lines(path):
    with open(path) as f:
        return f.read().split("\n")


_TOK = re.compile(r"^(h|s|sdg|cx|cz|swap)(\d+)(?:,(\d+))?$")


def read_tokens(circuit_string):
    """Independent reader of the documented circuit vocabulary. Returns (gates, bad_tokens)."""
    gates, bad = [], []
    for tok in circuit_string.split(" "):
        if tok == "":
            continue
        m = _TOK.match(tok)
        if not m:
            bad.append(tok)
            continue
        name, a, b = m.group(1), int(m.group(2)), m.group(3)
        two = name in ("cx", "cz", "swap")
        if two != (b is not None):
            bad.append(tok)
            continue
        gates.append((name, [a, int(b)] if two else [a]))
    return gates, bad
