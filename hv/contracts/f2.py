"""Sidecar contracts for htstabilizer.f2_algebra  (property C18; used modularly by C08, C15, C16).

Contracts are stated over the real functions; nothing in /repo is annotated.

  mat_mul(m1, m2)   pre  bit matrices, inner dimensions agree
                    post result[i,j] = parity(sum_k m1[i,k] m2[k,j]); arguments unmodified; int8 range side condition
  add(m1, m2)       post result = m1 xor m2 entrywise
  rref(A)           pre  bit matrix
                    post (B, piv): rref_form(B, piv)  [speclib]  and  ker B = ker A  (=> same row space, M2);
                         A unmodified; never raises
  rank(A)           post = len(rref(A)[1])                                   (modular over rref)
  null_space(A)     post K: int8 array of shape (n - rank, n) - also when that is 0 rows; every row v has B v = 0
                         (=> A v = 0 by rref's kernel clause); row for free column f has v[f]=1, v[f']=0 for other
                         free columns f' (=> independent, and with the count a basis: M2)            (modular over rref)
  rref_and_basis_change(A)  post (R, M, Minv): rref_form(R, piv(R)), M*A = R, M*Minv = I, Minv*M = I
"""
from __future__ import annotations
import itertools, time
import numpy as np
from ..pyvc import expr as X, sym as S, interp as I, vc
from ..pyvc.sym import GList, SB, SV, SL
from .. import speclib as L


def _f2():
    import htstabilizer.f2_algebra as f2
    return f2


# ------------------------------------------------------------------------------------------ whole-function cases

def case_mat_mul(a, b, c):
    f2 = _f2()

    def make():
        return [S.fresh_bits("x", (a, b)), S.fresh_bits("y", (b, c))], {}, True

    def post(args, kw, out):
        r = out.result
        ok_shape = isinstance(r, np.ndarray) and r.shape == (a, c)
        cl = [("shape", ok_shape)]
        if ok_shape:
            cl.append(("value", L.EQ(r, L.gf2_matmul(args[0], args[1]))))
        return cl

    return vc.Case(f"mat_mul[{a}x{b}.{b}x{c}]", f2.mat_mul, make, post, frozen=(0, 1),
                   canary=lambda args, kw, out: L.EQ(out.result, np.zeros((a, c), dtype=np.int64)))


def case_add(a, b):
    f2 = _f2()

    def make():
        return [S.fresh_bits("x", (a, b)), S.fresh_bits("y", (a, b))], {}, True

    def post(args, kw, out):
        r = out.result
        ok = isinstance(r, np.ndarray) and r.shape == (a, b)
        cl = [("shape", ok)]
        if ok:
            want = np.empty((a, b), dtype=object)
            for i in np.ndindex(a, b):
                want[i] = L.XOR(args[0][i], args[1][i])
            cl.append(("value", L.EQ(r, want)))
        return cl

    return vc.Case(f"add[{a}x{b}]", f2.add, make, post, frozen=(0, 1),
                   canary=lambda args, kw, out: L.EQ(out.result, args[0]))


def _kernel_clauses(A0, Bm, n, tag="v"):
    """ker A0 = ker Bm, split per row: (A0 v = 0 => row_r(B) v = 0) and conversely.  Returned as implications."""
    v = S.fresh_bits(tag, (n,), decl="int8")
    Av = L.gf2_matvec(A0, v)
    Bv = L.gf2_matvec(Bm, v)
    a_zero = L.AND([L.NOT(x) for x in Av])
    b_zero = L.AND([L.NOT(x) for x in Bv])
    cl = []
    for r, x in enumerate(Bv):
        cl.append((f"kernel.fwd.row{r}", L.IMPLIES(a_zero, L.NOT(x))))
    for r, x in enumerate(Av):
        cl.append((f"kernel.bwd.row{r}", L.IMPLIES(b_zero, L.NOT(x))))
    return cl


def native_same_kernel(A, Bm):
    """brute force / independent elimination: ker A == ker B over GF(2) (native oracle used in replay)"""
    A = (np.asarray(A).astype(np.int64)) % 2
    Bm = (np.asarray(Bm).astype(np.int64)) % 2
    n = A.shape[1]
    if n <= 8:
        for bits in range(1 << n):
            v = np.array([(bits >> i) & 1 for i in range(n)])
            if (not (A @ v % 2).any()) != (not (Bm @ v % 2).any()):
                return False
        return True
    return _rowspace_key(A) == _rowspace_key(Bm)


def _rowspace_key(Mx):
    rows = [int("".join(str(int(x)) for x in r), 2) for r in Mx]
    basis = []
    for r in rows:
        for b in basis:
            if r & (1 << (b.bit_length() - 1)):
                r ^= b
        if r:
            lead = 1 << (r.bit_length() - 1)
            basis = [b ^ r if b & lead else b for b in basis]
            basis.append(r)
    return tuple(sorted(basis, reverse=True))


def case_rref(m, n, with_kernel=True, timeout=60.0):
    f2 = _f2()

    def make():
        return [S.fresh_bits("a", (m, n))], {}, True

    def post(args, kw, out):
        res = out.result
        ok = isinstance(res, tuple) and len(res) == 2 and isinstance(res[0], np.ndarray) and res[0].shape == (m, n)
        cl = [("result_shape", ok)]
        if not ok:
            return cl
        Bm, piv = res
        cl.append(("bits", L.is_bit_matrix(Bm)))
        cl.append(("form", L.rref_form(Bm, piv)))
        if out.interp is not None:
            if with_kernel:
                cl += _kernel_clauses(args[0], Bm, n)
        else:
            cl += [(f"kernel.fwd.row{r}", native_same_kernel(args[0], Bm)) for r in range(m)]
            cl += [(f"kernel.bwd.row{r}", native_same_kernel(args[0], Bm)) for r in range(m)]
        return cl

    return vc.Case(f"rref[{m}x{n}]", f2.rref, make, post, frozen=(0,), timeout=timeout, loop_bound=max(m, n) + 2,
                   canary=lambda args, kw, out: L.EQ(out.result[0], np.zeros((m, n), dtype=np.int64)))


def case_rank(m, n):
    """rank(A) == len(rref(A)[1]), modular: rref replaced by its contract (havoc + assume form)"""
    f2 = _f2()
    holder = {}

    def rref_contract(interp, args, kwargs, g):
        A = args[0]
        Bm = S.fresh_bits("b", A.shape)
        piv = GList.guarded([(X.var(f"p_{c}"), c) for c in range(A.shape[1])])
        interp.hyps.append(S.bexpr(L.rref_form(Bm, piv)))
        holder["piv"] = piv
        return (Bm, piv)

    def make():
        return [S.fresh_bits("a", (m, n))], {}, True

    def post(args, kw, out):
        if out.interp is None:
            return [("value", out.result == len(f2.rref(args[0])[1]))]
        return [("value", L.EQ(out.result, holder["piv"].length()))]

    return vc.Case(f"rank[{m}x{n}]", f2.rank, make, post, modular={f2.rref: rref_contract}, frozen=(0,), cover=True)


def case_null_space(m, n, timeout=60.0):
    """modular over rref's contract with a symbolic pivot set"""
    f2 = _f2()
    holder = {}

    def rref_contract(interp, args, kwargs, g):
        A = args[0]
        Bm = S.fresh_bits("b", A.shape)
        piv = GList.guarded([(X.var(f"p_{c}"), c) for c in range(A.shape[1])])
        interp.hyps.append(S.bexpr(L.rref_form(Bm, piv)))
        holder["B"], holder["piv"] = Bm, piv
        return (Bm, piv)

    def make():
        return [S.fresh_bits("a", (m, n))], {}, True

    def alternatives(res):
        if isinstance(res, SV):
            return list(res.alts)
        return [(True, res)]

    def post(args, kw, out):
        from ..pyvc.models import GArr
        res = out.result
        if out.interp is None:
            # native evaluation on the real result
            A = np.asarray(args[0]).astype(np.int64) % 2
            Bn, pn = f2.rref(args[0])
            free = [c for c in range(n) if c not in pn]
            # the property asks for a basis of exactly the kernel, 2-D and integer-typed also when empty; WHICH basis and which integer type is the library's business
            ok_type = isinstance(res, np.ndarray) and res.ndim == 2 and res.shape == (len(free), n) and res.dtype.kind in "iub"
            cl = [("typed_shape", ok_type), ("count", isinstance(res, np.ndarray) and res.shape[0] == len(free))]
            if ok_type:
                inker = not ((A @ res.T.astype(np.int64)) % 2).any()
                cl += [(f"in_kernel.row{i}", inker) for i in range(n + 2)]
                cl.append(("independent", len(_rowspace_key(res.astype(np.int64) % 2)) == res.shape[0] if res.shape[0] else True))
            return cl
        Bm, piv = holder["B"], holder["piv"]
        p = L.pivot_indicator(piv, n)
        nfree = n - piv.length()
        typed, count, kern, ech = [], [], [], []
        for gd, val in alternatives(res):
            if isinstance(val, GArr):
                # real numpy: a non-empty list of int8 vectors -> (k, n) int8; an empty list -> float64 array of shape (0,)
                typed.append(X.Implies(gd, X.And(X.Not(val.empty_guard()), val.decl == np.int8, val.cols == n)))
                # one candidate row per column, present exactly when the column is free  =>  number of rows = n - number of pivots
                count.append(X.Implies(gd, X.And(len(val.rows) == n, *[X.Iff(rg, X.Not(p[i])) for i, (rg, _) in enumerate(val.rows)]) if len(val.rows) == n else False))
                rows = val.rows
            elif isinstance(val, np.ndarray):
                okt = val.ndim == 2 and val.shape[1] == n and S.decl_of(val) == np.int8
                typed.append(X.Implies(gd, okt))
                count.append(X.Implies(gd, S.bexpr(L.EQ(val.shape[0] if val.ndim >= 1 else -1, nfree))))
                rows = [(True, val[i]) for i in range(val.shape[0])] if val.ndim == 2 else []
            else:
                typed.append(X.Implies(gd, False))
                rows = []
            free_seen = 0
            for rg, vec in rows:
                g2 = X.And(gd, rg)
                kern.append(X.Implies(g2, S.bexpr(L.AND([L.NOT(x) for x in L.gf2_matvec(Bm, vec)]))))
            # echelon pattern: the t-th present row belongs to the t-th free column f_t: entry 1 there, 0 at other free columns
            # rows are generated in column order, row for column i present iff not p_i
            if len(rows) == n:
                for i, (rg, vec) in enumerate(rows):
                    g2 = X.And(gd, rg)
                    ech.append(X.Implies(g2, X.And(X.Not(p[i]), L.bit(vec[i]))))
                    for f in range(n):
                        if f != i:
                            ech.append(X.Implies(X.And(g2, X.Not(p[f])), X.Not(L.bit(vec[f]))))
            elif rows:
                ech.append(False)
        cl = [("typed_shape", X.And(*typed)), ("count", X.And(*count))]
        cl += [(f"in_kernel.row{i}", e) for i, e in enumerate(kern)]
        # independence is proved through a sufficient condition (identity pattern on the free columns); if the code builds another basis this clause is refuted
        # symbolically but holds on the real output, which withholds the verdict (UNDECIDED) - the GROUND families then decide independence by rank
        cl.append(("independent", X.And(*ech)))
        return cl

    def replay_args(model, args, kwargs):
        # a matrix already in reduced row echelon form is its own RREF (M3), so the callee state of the model is
        # reached by passing B itself
        return [np.asarray(S.concretize(holder["B"], model)).astype(np.int8)], {}

    return vc.Case(f"null_space[{m}x{n}]", f2.null_space, make, post, modular={f2.rref: rref_contract}, frozen=(0,),
                   timeout=timeout, canary=None, replay_args=replay_args)


def case_rabc(m, n, timeout=60.0):
    f2 = _f2()

    def make():
        return [S.fresh_bits("a", (m, n))], {}, True

    def post(args, kw, out):
        res = out.result
        ok = isinstance(res, tuple) and len(res) == 3 and all(isinstance(x, np.ndarray) for x in res) and \
            res[0].shape == (m, n) and res[1].shape == (m, m) and res[2].shape == (m, m)
        cl = [("result_shape", ok)]
        if not ok:
            return cl
        R, Mx, Minv = res
        eye = np.eye(m, dtype=np.int64)
        if out.interp is None:
            Rr, pr = f2.rref(args[0])
            cl.append(("R_is_rref", np.array_equal(np.asarray(R) % 2, Rr)))
        else:
            # R is in RREF form for SOME pivot set: existence shown with the pivot set read off R itself
            cl.append(("R_is_rref", L.rref_form(R, _leading_pivots(R))))
        cl.append(("MA=R", L.EQ(L.gf2_matmul(Mx, args[0]), R)))
        cl.append(("M*Minv=I", L.EQ(L.gf2_matmul(Mx, Minv), eye)))
        cl.append(("Minv*M=I", L.EQ(L.gf2_matmul(Minv, Mx), eye)))
        return cl

    return vc.Case(f"rref_and_basis_change[{m}x{n}]", f2.rref_and_basis_change, make, post, frozen=(0,), timeout=timeout,
                   loop_bound=max(m, n) + 2, canary=lambda args, kw, out: L.EQ(out.result[0], np.zeros((m, n), dtype=np.int64)))


def _leading_pivots(R):
    """GList of columns c such that some row has its first 1 in column c (symbolic)"""
    R = np.asarray(R, dtype=object)
    m, n = R.shape
    slots = []
    for c in range(n):
        lead = X.Or(*[X.And(L.bit(R[r, c]), *[X.Not(L.bit(R[r, cc])) for cc in range(c)]) for r in range(m)])
        slots.append((lead, c))
    return GList.guarded(slots)


# ------------------------------------------------------------------------------------------ loop-cut proof of rref

def _rec(name, status, backend="", t=0.0, info="", cex=None, native=None):
    return (name, status, backend, round(t, 4), info, cex, native)


def _native_rref_ok(A):
    """property-level contract of rref evaluated natively on the real function (used to replay loop-cut refutations)"""
    f2 = _f2()
    A = np.asarray(A).astype(np.int8)
    A0 = A.copy()
    try:
        Bm, piv = f2.rref(A)
    except Exception as e:
        return False, f"raised {type(e).__name__}: {e}"
    ok = bool(L.B(L.rref_form(Bm, list(piv)))) and native_same_kernel(A0, Bm) and np.array_equal(A, A0)
    return ok, {"B": np.asarray(Bm).tolist(), "pivots": list(piv)}


def rref_cut_tasks(m, n, with_steps=True):
    """obligation tasks for the loop-invariant proof of rref on shape m x n.  Each task is a zero-argument callable
    returning (records, stats)."""
    tasks = []
    tasks.append(lambda: rref_cut_frame(m, n))
    for k in range(n):
        for h in range(0, min(k, m - 1) + 1):
            tasks.append(lambda h=h, k=k: rref_cut_preserve(m, n, h, k))
            if with_steps:
                tasks.append(lambda h=h, k=k: rref_cut_steps(m, n, h, k))
    tasks.append(lambda: rref_cut_exit(m, n))
    return tasks


def _loop_env(m, n, h, k, A=None):
    A = S.fresh_bits("a", (m, n)) if A is None else A
    piv = GList.guarded([(X.var(f"p_{c}"), c) for c in range(k)])
    return A, piv


def rref_cut_frame(m, n):
    """prologue / epilogue: the statements before the loop establish the invariant at h=k=0 on a COPY of the
    argument (frame), and the statement after the loop returns (A, pivot_cols)."""
    import ast
    f2 = _f2()
    t0 = time.time()
    X.reset()
    name = f"rref.cut[{m}x{n}]"
    node, _ = I.func_ast(f2.rref)
    body = node.body
    widx = [i for i, st in enumerate(body) if isinstance(st, ast.While)]
    if len(widx) != 1:
        return [_rec(name + ":structure", "unknown", "pyvc", 0, "structure drift: expected exactly one top-level while loop")], {}
    w = widx[0]
    it = I.Interp()
    A = S.fresh_bits("a", (m, n))
    it.freeze("arg0", A)
    fr = I.Frame({"A": A}, f2.rref.__globals__, fname="rref")
    flow = it.block(body[:w], fr, True)
    env = fr.env
    recs = []
    ok_env = all(v in env for v in ("A", "pivot_cols", "h", "k", "m", "n"))
    if not ok_env:
        return [_rec(name + ":structure", "unknown", "pyvc", 0, "structure drift: loop state variables A,pivot_cols,h,k,m,n not found")], {}
    init = X.And(flow.normal, S.bexpr(L.EQ(env["h"], 0)), S.bexpr(L.EQ(env["k"], 0)), S.bexpr(L.EQ(env["m"], m)), S.bexpr(L.EQ(env["n"], n)),
                 S.bexpr(L.EQ(L_len(env["pivot_cols"]), 0)), S.bexpr(L.EQ(env["A"], A)), L.is_bit_matrix(env["A"]))
    v = X.prove([], init)
    recs.append(_rec(name + ":init", v.status, v.backend, v.time))
    base = env["A"]
    while isinstance(base, np.ndarray) and base.base is not None:
        base = base.base
    fresh_copy = base is not A and not it.frame_violations
    recs.append(_rec(name + ":frame.loop_state_is_a_copy_of_the_argument", "proved" if fresh_copy else "refuted", "pyvc", 0.0,
                     "" if fresh_copy else "the loop works on the caller's array"))
    # epilogue
    tail = body[w + 1:]
    A2, piv2 = S.fresh_bits("z", (m, n)), GList([0])
    fr2 = I.Frame({"A": A2, "pivot_cols": piv2, "h": 0, "k": 0, "m": m, "n": n}, f2.rref.__globals__, fname="rref")
    fl2 = it.block(tail, fr2, True)
    okret = len(fr2.rets) == 1 and isinstance(fr2.rets[0][1], tuple) and len(fr2.rets[0][1]) == 2 and fr2.rets[0][1][0] is A2 and fr2.rets[0][1][1] is piv2
    recs.append(_rec(name + ":epilogue.returns_loop_state", "proved" if okret else "unknown", "pyvc", 0.0,
                     "" if okret else "structure drift: statements after the loop do not simply return (A, pivot_cols)"))
    return recs, {"t": round(time.time() - t0, 3)}


def L_len(v):
    return v.length() if isinstance(v, GList) else len(v)


def _len_is(lst, k):
    """len(lst) == k as a pure boolean formula (one-hot count of the presence guards)"""
    if isinstance(lst, GList):
        return L.count_is([g for g, _ in lst.slots], k)
    return len(lst) == k


def rref_cut_preserve(m, n, h, k, timeout=120.0):
    """Inv(A, piv, h, k) and loop condition  ==>  after one execution of the real loop body: Inv(A', piv', h', k'),
    k' = k+1, h' in {h, h+1}, no exception, entries stay bits."""
    f2 = _f2()
    t0 = time.time()
    X.reset()
    name = f"rref.cut[{m}x{n}]:preserve[h={h},k={k}]"
    try:
        A, piv = _loop_env(m, n, h, k)
        it = I.Interp(loop_bound=m + 2)
        inv = L.rref_form(A, piv, upto=k)
        it.hyps += [S.bexpr(inv), _len_is(piv, h)]
        A_pre = A.copy()
        env, flow, cond, _ = it.run_loop_body(f2.rref, 0, {"A": A, "m": m, "n": n, "pivot_cols": piv, "h": h, "k": k})
        if cond is not True:
            return [_rec(name, "unknown", "pyvc", time.time() - t0, "loop condition not concretely true at a reachable (h,k)")], {}
        hp, kp = env["h"], env["k"]
        hp_is_h, hp_is_h1 = L.B(L.EQ(hp, h)), L.B(L.EQ(hp, h + 1))
        goal = L.AND(L.EQ(kp, k + 1), L.OR(hp_is_h, hp_is_h1), hp <= m if not isinstance(hp, int) else hp <= m,
                     X.Implies(hp_is_h, _len_is(env["pivot_cols"], h)), X.Implies(hp_is_h1, _len_is(env["pivot_cols"], h + 1)),
                     L.rref_form(env["A"], env["pivot_cols"], upto=k + 1),
                     L.NOT(flow.exc), L.NOT(flow.ret), L.is_bit_matrix(env["A"]), flow.normal,
                     not flow.brk and not flow.cnt, env["A"] is A, not it.side or all(g is True for _, g in it.side))
        v = X.prove(it.hyps, S.bexpr(goal), timeout_s=timeout)
        cex = native = None
        if v.status == "refuted":
            Ac = np.asarray(S.concretize(A_pre, v.model or {})).astype(np.int8)
            ok, info = _native_rref_ok(Ac)
            cex = {"args": [{"ndarray": Ac.tolist(), "dtype": "int8"}], "native": info, "loop_state": {"h": h, "k": k}}
            native = not ok
        return [_rec(name, v.status, v.backend, time.time() - t0, v.info, cex, native)], {}
    except S.Unsupported as e:
        return [_rec(name, "unknown", "pyvc", time.time() - t0, f"unsupported: {e}")], {}


def rref_cut_exit(m, n, timeout=120.0):
    """Inv(h,k) and not (h < m and k < n)  ==>  rref_form(A, piv) (the function's postcondition)"""
    t0 = time.time()
    recs = []
    for (h, k) in [(m, kk) for kk in range(m, n + 1)] + [(hh, n) for hh in range(0, min(m, n) + 1) if hh != m or n < m]:
        if h > min(k, m):
            continue
        X.reset()
        A, piv = _loop_env(m, n, h, k)
        hyps = [S.bexpr(L.rref_form(A, piv, upto=k)), _len_is(piv, h)]
        v = X.prove(hyps, S.bexpr(L.rref_form(A, piv)), timeout_s=timeout)
        recs.append(_rec(f"rref.cut[{m}x{n}]:exit[h={h},k={k}]", v.status, v.backend, v.time, v.info))
    return recs, {"t": round(time.time() - t0, 3)}


def rref_cut_steps(m, n, h, k):
    """Row-space relation of one iteration, split on the pivot row i (and the 'no pivot' case): with the branch decisions
    fixed as literals the control flow is concrete and the relation is a polynomial identity over GF(2), decided by ANF:
        forward : A' = T*A,  T read off A' itself (T[r,j] = d A'[r,c*] / d A[j,c*]), so ker A <= ker A'
        inverse : T * Tinv = I with Tinv = Swap(h,i) * Elim  (elementary matrices), so T is invertible and ker A' <= ker A"""
    f2 = _f2()
    recs = []
    t0 = time.time()
    cstar = (k + 1) % n if n > 1 else None
    for i in list(range(h, m)) + [None]:
        name = f"rref.cut[{m}x{n}]:step[h={h},k={k},i={i}]"
        X.reset()
        try:
            A = S.fresh_bits("a", (m, n))
            for j in range(h, m):
                if i is None or j < i:
                    A[j, k] = 0
                elif j == i:
                    A[j, k] = 1
            A_pre = A.copy()
            piv = GList(list(range(h)))          # contents irrelevant for the row relation
            it = I.Interp(loop_bound=m + 2)
            env, flow, cond, _ = it.run_loop_body(f2.rref, 0, {"A": A, "m": m, "n": n, "pivot_cols": piv, "h": h, "k": k})
            A2 = env["A"]
            if it.raised or it.side or flow.normal is not True:
                recs.append(_rec(name, "unknown", "pyvc", 0, "unexpected control flow in a concrete-control step"))
                continue
            ok, why = _step_identity(A_pre, A2, m, n, h, k, i, cstar)
            recs.append(_rec(name, "proved" if ok else "refuted", "anf", 0.0, why,
                             None if ok else {"loop_state": {"h": h, "k": k, "pivot_row": i}, "note": why}, None))
        except S.Unsupported as e:
            recs.append(_rec(name, "unknown", "pyvc", 0, f"unsupported: {e}"))
    return recs, {"t": round(time.time() - t0, 3)}


def _poly(v, vidx_holder):
    e = L.bit(v)
    (p,), vidx = X.anf([e])
    return p, vidx


def _step_identity(A, A2, m, n, h, k, i, cstar):
    """ANF check of the step relation; polynomials over one shared variable index"""
    roots = [L.bit(A2[r, c]) for r in range(m) for c in range(n)] + [L.bit(A[r, c]) for r in range(m) for c in range(n)]
    polys, vidx = X.anf(roots)
    P2 = {(r, c): polys[r * n + c] for r in range(m) for c in range(n)}
    P1 = {(r, c): polys[m * n + r * n + c] for r in range(m) for c in range(n)}
    if i is None:
        same = all(P1[rc] == P2[rc] for rc in P1)
        return same, "" if same else "matrix changed although no pivot exists in this column"
    if cstar is None:
        # single column: A' = T A trivially checkable entrywise: rows other than h become 0, row h becomes 1
        T = None
    # derive T from column c*: T[r,j] = coefficient polynomial of variable a_{j,c*} in A'[r,c*]
    def mul(p, q):
        acc = set()
        for a in p:
            for b in q:
                t = a | b
                if t in acc:
                    acc.remove(t)
                else:
                    acc.add(t)
        return frozenset(acc)
    ZERO, ONE = frozenset(), frozenset([0])
    T = [[ZERO] * m for _ in range(m)]
    if cstar is not None:
        for r in range(m):
            for j in range(m):
                vname = f"a_{j}_{cstar}"
                if vname not in vidx:
                    continue
                bitm = 1 << vidx[vname]
                T[r][j] = frozenset(t & ~bitm for t in P2[(r, cstar)] if t & bitm)
    else:
        # n == 1: only column k exists and its entries in rows >= h are constants; T is the textbook matrix
        T = _textbook_T(m, h, i, [P1[(r, k)] if r != i and r != h else None for r in range(m)], P1, k)
    # forward: A' == T*A
    for r in range(m):
        for c in range(n):
            acc = ZERO
            for j in range(m):
                if T[r][j]:
                    acc = acc ^ mul(T[r][j], P1[(j, c)])
            if acc != P2[(r, c)]:
                return False, f"A'[{r},{c}] is not the row combination given by T (row relation A' = T*A fails)"
    # inverse: Tinv = Swap(h,i) * Elim, Elim = I + c e_h^T with c_r = (A after swap)[r,k], c_h = 0
    sw = list(range(m))
    sw[h], sw[i] = sw[i], sw[h]
    coef = [ZERO if r == h else P1[(sw[r], k)] for r in range(m)]
    # Elim[r][j] = delta_rj + [j==h]*coef[r];  Tinv = P * Elim  (rows permuted by sw)
    def elim(r, j):
        v = ONE if r == j else ZERO
        if j == h:
            v = v ^ coef[r]
        return v
    Tinv = [[elim(sw[r], j) for j in range(m)] for r in range(m)]
    for r in range(m):
        for c in range(m):
            acc = ZERO
            for j in range(m):
                if T[r][j] and Tinv[j][c]:
                    acc = acc ^ mul(T[r][j], Tinv[j][c])
            if acc != (ONE if r == c else ZERO):
                return False, "T * (Swap * Elim) != I: the step is not the composition of the elementary row operations of the specification"
    return True, ""


def _textbook_T(m, h, i, _unused, P1, k):
    ZERO, ONE = frozenset(), frozenset([0])
    sw = list(range(m))
    sw[h], sw[i] = sw[i], sw[h]
    T = [[ZERO] * m for _ in range(m)]
    for r in range(m):
        # row r of Elim * P
        for j in range(m):
            v = ONE if sw[r] == j else ZERO
            T[r][j] = v
        if r != h:
            c = P1[(sw[r], k)]
            # add coef * (row h of P) = coef * e_{sw[h]}
            T[r][sw[h]] = T[r][sw[h]] ^ c
    return T
