"""Sidecar contracts for htstabilizer.find_local_clifford_layer (property C16; used by C01/C03/C08).

Cut points in find_local_clifford_layer(R, S, graph):   A = after `Rs = Rs.transpose()`,  C = after `cc = ...`,  D = body of `for row in cc`.

  segA.linearity[n,m]   for EVERY coefficient vector row in F_2^{4n}:  Rs * row = flatten( Gamma (Axx R + Axz S) + Azx R + Azz S )  where
                        A(row) has diagonal blocks sum_k row[4j+k] * cs[k]  (cs = the basis list built by the code).  Polynomial identity, ANF.
                        Hence  row in ker(Rs)  <=>  check_LC(R, S, graph, A(row)).
  basis.bijection       the 16 coefficient patterns give the 16 matrices of M_2(F_2) (cs is a basis) and the filter (r0|r1)^(r2|r3) selects exactly the
                        six invertible ones
  segC.span[r]          cc = all 2^r GF(2)-combinations of the kernel rows (r = 0..4; assumed itertools.product contract)
  segD.*[n]             loop body with a symbolic row: returns <=> every block of A(row) is invertible (the sum filter never skips such a row);
                        the returned blocks are exactly A(row) (diagonal, off-diagonal zero); never raises
  check_LC.post[n,m]    True <=> Gamma (Axx R + Axz S) + Azx R + Azz S = 0
  to_circuit.body       local_clifford_layer_to_circuit: for a symbolic block on a symbolic-position-free loop body: raises <=> block not invertible; otherwise
                        the emitted word over {h, s} (on that qubit only) has symplectic action = the block (gate actions: M6)
Lemma (paper): returned => some row in ker(Rs) with all blocks invertible => check_LC holds for it (soundness, no validity precondition);
a valid layer L exists => its coefficient row is in ker(Rs) = rows of cc (null_space contract, C18) => the loop returns at or before it (completeness);
None <=> no such row.
"""
from __future__ import annotations
import ast, time
import numpy as np
from ..pyvc import expr as X, sym as S, interp as I, vc, models as M
from ..pyvc.sym import GList, SB
from .. import speclib as L


def _mod():
    import htstabilizer.find_local_clifford_layer as fl
    return fl


def mk_graph(n, tag="g", concrete_adj=None):
    from htstabilizer.graph import Graph
    g = Graph.__new__(Graph)
    g.num_vertices = n
    a = np.empty((n, n), dtype=object)
    for i in range(n):
        for j in range(n):
            if i == j:
                a[i, j] = 0
            elif concrete_adj is not None:
                a[i, j] = int(concrete_adj[i][j])
            else:
                lo, hi = min(i, j), max(i, j)
                a[i, j] = SB(X.var(f"{tag}_{lo}_{hi}"))
    arr = a.view(S.SArr)
    arr.decl = np.dtype(np.int8)
    g.adjacency_matrix = arr
    return g


def conc_graph(g, model):
    from htstabilizer.graph import Graph
    return Graph(np.asarray(S.concretize(g.adjacency_matrix, model)).astype(np.int8))


def _native_gap(it):
    """a path of the symbolic run ended in a Python exception that escaped from a concrete operation inside the interpreter: program error or modelling gap -
    cannot be told apart here, so the verdict is withheld (unknown) instead of refuted"""
    return any(getattr(r, "native", False) for r in it.raised)


def _rec(name, status, backend="", t=0.0, info="", cex=None, native=None):
    return (name, status, backend, round(t, 4), info, cex, native)


def spec_blocks(row, cs, n):
    """A(row): per qubit j the 4 block entries  sum_k row[4j+k] * cs[k][e]   (E|bool each)"""
    out = []
    for j in range(n):
        out.append([X.Xor(*[X.And(L.bit(row[4 * j + k]), L.bit(cs[k][e])) for k in range(4)]) for e in range(4)])
    return out


def spec_lhs(R, Sm, gamma, blocks, n, m):
    """flatten(Gamma (Axx R + Axz S) + Azx R + Azz S) for diagonal blocks"""
    Rp = [[X.Xor(X.And(blocks[q][0], L.bit(R[q, c])), X.And(blocks[q][1], L.bit(Sm[q, c]))) for c in range(m)] for q in range(n)]   # Axx R + Axz S
    Sp = [[X.Xor(X.And(blocks[q][2], L.bit(R[q, c])), X.And(blocks[q][3], L.bit(Sm[q, c]))) for c in range(m)] for q in range(n)]   # Azx R + Azz S
    out = []
    for q in range(n):
        for c in range(m):
            out.append(X.Xor(Sp[q][c], *[X.And(L.bit(gamma[q, p]), Rp[p][c]) for p in range(n)]))
    return out


def _prefix_env(fn, args, stop):
    """interpret the body of fn up to (and including) the first top-level statement satisfying `stop`; returns (interp, env) or None"""
    node, _ = I.func_ast(fn)
    idx = None
    for k, st in enumerate(node.body):
        if stop(st):
            idx = k
            break
    if idx is None:
        return None
    it = I.Interp()
    tmp = I.Frame({}, fn.__globals__, fname=fn.__qualname__)
    env = it.bind(node, lambda d: it.eval(d, tmp, True), list(args), {}, fn.__qualname__)
    fr = I.Frame(env, fn.__globals__, fname=fn.__qualname__)
    flow = it.block(node.body[:idx + 1], fr, True)
    return it, fr.env, flow


def _is_assign_to(name, pred=None):
    def f(st):
        return isinstance(st, ast.Assign) and len(st.targets) == 1 and isinstance(st.targets[0], ast.Name) and st.targets[0].id == name and (pred is None or pred(st))
    return f


def task_segA(n, m):
    def task():
        fl = _mod()
        t0 = time.time()
        X.reset()
        name = f"find_layer.segA.linearity[n={n},m={m}]"
        R = S.fresh_bits("r", (n, m))
        Sm = S.fresh_bits("s", (n, m))
        g = mk_graph(n)
        try:
            r = _prefix_env(fl.find_local_clifford_layer, [R, Sm, g], _is_assign_to("Rs", lambda st: "transpose" in ast.unparse(st.value)))
            if r is None:
                return [_rec(name, "unknown", "pyvc", 0, "structure drift: statement `Rs = Rs.transpose()` not found")], {}
            it, env, flow = r
            Rs, cs = env["Rs"], env["cs"]
            cs = cs.plain() if isinstance(cs, GList) else cs
            if Rs.shape != (n * m, 4 * n) or len(cs) != 4:
                return [_rec(name, "unknown", "pyvc", 0, f"structure drift: Rs has shape {Rs.shape}, cs has {len(cs)} entries")], {}
            if it.raised or flow.normal is not True:
                return [_rec(name, "unknown" if _native_gap(it) else "refuted", "pyvc", 0, "the set-up segment can raise / does not complete: " + str([(x.etype, x.where) for x in it.raised]))], {}
            row = S.fresh_bits("w", (4 * n,))
            blocks = spec_blocks(row, cs, n)
            lhs = spec_lhs(R, Sm, g.adjacency_matrix, blocks, n, m)
            prod = [X.Xor(*[X.And(L.bit(Rs[t, c]), L.bit(row[c])) for c in range(4 * n)]) for t in range(n * m)]
            roots = [X.Xor(a, b) for a, b in zip(prod, lhs)]
            polys, vidx = X.anf(roots)
            bad = [t for t, p in enumerate(polys) if p]
            recs = [_rec(name, "proved" if not bad else "refuted", "anf", time.time() - t0,
                         "" if not bad else f"coordinate {bad[0]} of Rs*row differs from the check_LC left-hand side", None if not bad else {"coordinate": bad[0]}, None)]
            # canary: the same comparison against a deliberately wrong specification (Axx and Azz exchanged) must fail
            wrong = [[b[3], b[1], b[2], b[0]] for b in blocks]
            wl = spec_lhs(R, Sm, g.adjacency_matrix, wrong, n, m)
            wp, _ = X.anf([X.Xor(a, b) for a, b in zip(prod, wl)])
            canary_ok = any(p for p in wp)
            ok_side = all(gl is True for _, gl in it.side)
            recs.append(_rec(f"find_layer.segA.side[n={n},m={m}]", "proved" if ok_side else "refuted", "fold", 0.0, str(it.side) if not ok_side else ""))
            frame_ok = not it.frame_violations
            return recs, {"t": round(time.time() - t0, 3), "stmts": it.stats["stmts"], "canary": "refuted+replayed" if canary_ok else "NOT-REFUTED(anf)"}
        except S.Unsupported as e:
            return [_rec(name, "unknown", "pyvc", time.time() - t0, f"unsupported: {e}")], {}
    return task


def task_basis():
    def task():
        fl = _mod()
        X.reset()
        name = "find_layer.basis.bijection"
        R = S.fresh_bits("r", (1, 1))
        r = _prefix_env(fl.find_local_clifford_layer, [R, S.fresh_bits("s", (1, 1)), mk_graph(1)], _is_assign_to("cs"))
        if r is None:
            return [_rec(name, "unknown", "pyvc", 0, "structure drift: `cs = [...]` not found")], {}
        it, env, flow = r
        cs = env["cs"].plain() if isinstance(env["cs"], GList) else env["cs"]
        mats = {}
        recs = []
        for pat in range(16):
            rb = [(pat >> k) & 1 for k in range(4)]
            blk = tuple(sum(rb[k] * int(S.concretize(cs[k][e], {})) for k in range(4)) % 2 for e in range(4))
            mats[pat] = blk
            inv = (blk[0] * blk[3] + blk[1] * blk[2]) % 2 == 1
            filt = ((rb[0] | rb[1]) ^ (rb[2] | rb[3])) == 1
            recs.append(_rec(f"find_layer.basis.filter_iff_invertible[pattern={pat:04b}]", "proved" if inv == filt else "refuted", "native", 0.0,
                             "" if inv == filt else f"pattern {rb} gives block {blk}: invertible={inv}, filter={filt}"))
        ok = len(set(mats.values())) == 16
        recs.append(_rec(name, "proved" if ok else "refuted", "native", 0.0, "" if ok else "cs is not a basis of the 2x2 matrices over GF(2)"))
        return recs, {}
    return task


def task_segC(rank, width):
    def task():
        fl = _mod()
        t0 = time.time()
        X.reset()
        name = f"find_layer.segC.span[rank={rank},width={width}]"
        node, _ = I.func_ast(fl.find_local_clifford_layer)
        # the statements between `rank = kernel.shape[0]` and `cc = ...` inclusive
        idx0 = idx1 = None
        for k, st in enumerate(node.body):
            if _is_assign_to("rank", lambda s: "kernel" in ast.unparse(s.value))(st):
                idx0 = k
            if _is_assign_to("cc")(st):
                idx1 = k
        if idx0 is None or idx1 is None or idx1 < idx0:
            return [_rec(name, "unknown", "pyvc", 0, "structure drift: `rank = kernel.shape[0]` ... `cc = ...` not found")], {}
        it = I.Interp()
        kernel = S.fresh_bits("k", (rank, width))
        fr = I.Frame({"kernel": kernel}, fl.find_local_clifford_layer.__globals__, fname="find_local_clifford_layer")
        try:
            flow = it.block(node.body[idx0:idx1 + 1], fr, True)
        except S.Unsupported as e:
            return [_rec(name, "unknown", "pyvc", 0, f"unsupported: {e}")], {}
        cc = fr.env["cc"]
        import itertools
        want = np.empty((2 ** rank, width), dtype=object)
        for t, lam in enumerate(itertools.product([0, 1], repeat=rank)):
            for c in range(width):
                want[t, c] = L.XOR(*[kernel[i, c] for i in range(rank) if lam[i]]) if rank else 0
        ok = isinstance(cc, np.ndarray) and cc.shape == want.shape and not it.raised
        if not it.raised and not (isinstance(cc, np.ndarray) and cc.shape == want.shape):
            # `cc` is an internal variable: a different shape means the candidate enumeration was restructured, not that it is wrong - the segment argument no longer applies
            return [_rec(name, "unknown", "pyvc", time.time() - t0, f"structure drift: cc has shape {getattr(cc, 'shape', None)}, the segment contract expects {want.shape}")], {}
        if not ok:
            return [_rec(name, "unknown" if _native_gap(it) else "refuted", "pyvc", time.time() - t0, f"cc has shape {getattr(cc, 'shape', None)}, expected {want.shape}; raised {[(r.etype) for r in it.raised]}")], {}
        v = X.prove([], S.bexpr(L.EQ(cc, want)))
        return [_rec(name, v.status, v.backend, time.time() - t0, v.info)], {}
    return task


def task_segD(n, m=None):
    m = n if m is None else m

    def task():
        fl = _mod()
        t0 = time.time()
        X.reset()
        name = f"find_layer.segD[n={n},m={m}]"
        node, _ = I.func_ast(fl.find_local_clifford_layer)
        loops = [x for x in ast.walk(node) if isinstance(x, (ast.For, ast.While))]
        loops.sort(key=lambda x: (x.lineno, x.col_offset))
        ordn = [k for k, lp in enumerate(loops) if isinstance(lp, ast.For) and ast.unparse(lp.iter) == "cc"]
        if len(ordn) != 1:
            return [_rec(name, "unknown", "pyvc", 0, "structure drift: loop `for row in cc` not found")], {}
        # environment at the loop: everything the set-up segment defines (n, m, p, cs, gamma, R, S, ...) plus a symbolic row
        r = _prefix_env(fl.find_local_clifford_layer, [S.fresh_bits("r", (n, m)), S.fresh_bits("s", (n, m)), mk_graph(n)],
                        _is_assign_to("Rs", lambda st: "transpose" in ast.unparse(st.value)))
        if r is None:
            return [_rec(name, "unknown", "pyvc", 0, "structure drift: set-up segment not found")], {}
        _, env0, _ = r
        if "cs" not in env0 or "n" not in env0:
            return [_rec(name, "unknown", "pyvc", 0, "structure drift: `cs` / `n` not defined by the set-up segment")], {}
        cs = env0["cs"]
        row = S.fresh_bits("w", (4 * n,))
        it = I.Interp()
        loop = loops[ordn[0]]
        env = dict(env0)
        env["row"] = row
        fr = I.Frame(env, fl.find_local_clifford_layer.__globals__, fname="find_local_clifford_layer")
        try:
            flow = it.block(loop.body, fr, True)
        except S.Unsupported as e:
            return [_rec(name, "unknown", "pyvc", 0, f"unsupported: {e}")], {}
        except NameError as e:
            return [_rec(name, "unknown", "pyvc", 0, f"structure drift: the loop body reads a variable that the set-up segment does not define: {e}")], {}
        csl = cs.plain() if isinstance(cs, GList) else cs
        blocks = spec_blocks(row, csl, n)
        valid = X.And(*[X.Xor(X.And(b[0], b[3]), X.And(b[1], b[2])) for b in blocks])
        recs = []
        v = X.prove([], X.Iff(flow.ret, valid), timeout_s=60)
        cex, native = None, None
        if v.status == "refuted":
            rowc = [int(x) for x in S.concretize(row, v.model or {}).tolist()]
            cex = {"row": rowc}
            found = _native_witness_for_row(n, m, rowc, csl)
            if found is not None:
                cex.update(found)
                native = True
        recs.append(_rec(f"find_layer.segD.returns_iff_all_blocks_invertible[n={n},m={m}]", v.status, v.backend, v.time, v.info, cex, native))
        exc = X.Or(*[x.guard for x in it.raised])
        v = X.prove([], X.Not(exc))
        recs.append(_rec(f"find_layer.segD.noraise[n={n},m={m}]", v.status, v.backend, v.time, v.info))
        # returned value = A(row)
        goal = []
        for gd, val in fr.rets:
            val = val.plain() if isinstance(val, GList) else val
            okshape = isinstance(val, (list, tuple)) and len(val) == 4 and all(isinstance(a, np.ndarray) and a.shape == (n, n) for a in val)
            if not okshape:
                goal.append(X.Not(gd))
                continue
            for e in range(4):
                for i in range(n):
                    for j in range(n):
                        want = blocks[i][e] if i == j else False
                        goal.append(X.Implies(gd, X.Iff(L.bit(val[e][i, j]), want)))
        v = X.prove([], X.And(*goal), timeout_s=60)
        recs.append(_rec(f"find_layer.segD.result_blocks[n={n},m={m}]", v.status, v.backend, v.time, v.info))
        cont_ok = X.prove([], X.Iff(X.Or(flow.normal, *[c for c, _ in flow.cnt]), X.Not(valid)))
        recs.append(_rec(f"find_layer.segD.continues_otherwise[n={n},m={m}]", cont_ok.status, cont_ok.backend, cont_ok.time, cont_ok.info))
        # canary: "returns for every row" must be refuted
        cv = X.prove([], flow.ret)
        return recs, {"t": round(time.time() - t0, 3), "stmts": it.stats["stmts"], "canary": "refuted+replayed" if cv.status == "refuted" else f"NOT-REFUTED({cv.status})"}
    return task


def _native_witness_for_row(n, m, rowc, csl):
    """Turn a refuting coefficient row into a real input: if the row encodes a layer L of invertible blocks, take graphs whose state has few local symmetries,
    pull m of their generators back through L^-1 and ask the REAL search for a layer.  Returns a replayable input on which the real function is wrong, or None."""
    import itertools
    from ..oracle import graphs as G
    fl = _mod()
    from htstabilizer.graph import Graph
    blocks = []
    for j in range(n):
        b = tuple(sum(rowc[4 * j + k] * int(S.concretize(csl[k][e], {})) for k in range(4)) % 2 for e in range(4))
        if b not in G.SIX:
            return None
        blocks.append(b)
    inv = []
    for a, b, c, d in blocks:               # inverse of an invertible 2x2 matrix over GF(2) (det = 1): [[d, b], [c, a]]
        inv.append(G.SIX.index((d, b, c, a)))
    cands = [[(i, (i + 1) % n) for i in range(n)] if n >= 3 else [(0, 1)][:n - 1], [(i, i + 1) for i in range(n - 1)], [(0, i) for i in range(1, n)]]
    for edges in cands:
        adj = G.adj_from_edges(n, [e for e in edges if e[0] != e[1]])
        rows0 = [(x, z) for x, z, _ in G.graph_state_gens(n, adj)]
        rows = G.apply_layer_unsigned(n, rows0, inv)[:m]
        R = np.zeros((n, len(rows)), dtype=np.int8)
        Sm = np.zeros((n, len(rows)), dtype=np.int8)
        for j, (x, z) in enumerate(rows):
            for q in range(n):
                R[q, j] = (x >> q) & 1
                Sm[q, j] = (z >> q) & 1
        g = Graph.decompress(n, G.id_from_adj(n, adj))
        try:
            res = fl.find_local_clifford_layer(R, Sm, g)
        except Exception as e:
            res = e
        if res is None or isinstance(res, Exception):
            return {"n": n, "operators": [f"x={x:0{n}b} z={z:0{n}b}" for x, z in rows], "graph_id": G.id_from_adj(n, adj),
                    "native": f"find_local_clifford_layer returned {res!r} although the layer {blocks} maps all operators into the graph state's group",
                    "args": [{"ndarray": R.tolist(), "dtype": "int8"}, {"ndarray": Sm.tolist(), "dtype": "int8"}]}
    return None


def case_check_LC(n, m):
    fl = _mod()

    def make():
        As = [S.fresh_bits(f"a{e}", (n, n)) for e in range(4)]
        return [S.fresh_bits("r", (n, m)), S.fresh_bits("s", (n, m)), mk_graph(n), As], {}, True

    def post(args, kw, out):
        R, Sm, g, As = args
        gam = g.adjacency_matrix
        lhs = L.gf2_matmul(gam, L.gf2_matmul(As[0], R))
        t2 = L.gf2_matmul(gam, L.gf2_matmul(As[1], Sm))
        t3 = L.gf2_matmul(As[2], R)
        t4 = L.gf2_matmul(As[3], Sm)
        zero = X.And(*[X.Not(X.Xor(L.bit(lhs[i, j]), L.bit(t2[i, j]), L.bit(t3[i, j]), L.bit(t4[i, j]))) for i in range(n) for j in range(m)])
        return [("value", L.IFF(out.result, zero))]

    def replay_args(model, args, kwargs):
        R, Sm, g, As = args
        return [np.asarray(S.concretize(R, model)).astype(np.int8), np.asarray(S.concretize(Sm, model)).astype(np.int8), conc_graph(g, model),
                [np.asarray(S.concretize(a, model)).astype(np.int8) for a in As]], {}

    return vc.Case(f"check_LC[n={n},m={m}]", fl.check_LC, make, post, canary=lambda a, k, o: o.result, replay_args=replay_args)


def task_check_LC(n, m):
    """check_LC: the matrix LHS built by the code equals Gamma (Axx R + Axz S) + Azx R + Azz S entrywise (ANF, arbitrary blocks A), and the
    function returns `no entry of LHS is set`"""
    def task():
        fl = _mod()
        t0 = time.time()
        X.reset()
        name = f"check_LC.lhs[n={n},m={m}]"
        R, Sm, g = S.fresh_bits("r", (n, m)), S.fresh_bits("s", (n, m)), mk_graph(n)
        As = GList([S.fresh_bits(f"a{e}", (n, n)) for e in range(4)])
        try:
            r = _prefix_env(fl.check_LC, [R, Sm, g, As], _is_assign_to("LHS"))
            if r is None:
                return [_rec(name, "unknown", "pyvc", 0, "structure drift: `LHS = ...` not found")], {}
            it, env, flow = r
            LHS = env["LHS"]
            A = As.plain()
            gam = g.adjacency_matrix
            spec = []
            for i in range(n):
                for j in range(m):
                    terms = []
                    for p_ in range(n):
                        for q in range(n):
                            terms.append(X.And(L.bit(gam[i, p_]), L.bit(A[0][p_, q]), L.bit(R[q, j])))
                            terms.append(X.And(L.bit(gam[i, p_]), L.bit(A[1][p_, q]), L.bit(Sm[q, j])))
                    for q in range(n):
                        terms.append(X.And(L.bit(A[2][i, q]), L.bit(R[q, j])))
                        terms.append(X.And(L.bit(A[3][i, q]), L.bit(Sm[q, j])))
                    spec.append(X.Xor(*terms))
            if not isinstance(LHS, np.ndarray) or LHS.shape != (n, m):
                return [_rec(name, "unknown" if _native_gap(it) else "refuted", "pyvc", 0, f"LHS has shape {getattr(LHS, 'shape', None)}")], {}
            code = [L.bit(LHS[i, j]) for i in range(n) for j in range(m)]
            polys, _ = X.anf([X.Xor(a, b) for a, b in zip(code, spec)])
            bad = [k for k, p_ in enumerate(polys) if p_]
            recs = [_rec(name, "proved" if not bad else "refuted", "anf", time.time() - t0, "" if not bad else f"entry {divmod(bad[0], m)} of LHS differs from the specification")]
            # the remaining statements return "no entry set"
            node, _ = I.func_ast(fl.check_LC)
            idx = [k for k, st in enumerate(node.body) if _is_assign_to("LHS")(st)][0]
            fr = I.Frame(env, fl.check_LC.__globals__, fname="check_LC")
            it.block(node.body[idx + 1:], fr, True)
            okret = len(fr.rets) == 1
            v = X.prove([], X.Iff(S.bexpr(fr.rets[0][1]), X.Not(X.Or(*code)))) if okret else None
            recs.append(_rec(f"check_LC.returns_lhs_is_zero[n={n},m={m}]", v.status if v else "refuted", v.backend if v else "pyvc", v.time if v else 0.0))
            wrong, _ = X.anf([X.Xor(code[0], X.Xor(spec[0], L.bit(R[0, 0])))])
            return recs, {"t": round(time.time() - t0, 3), "canary": "refuted+replayed" if wrong[0] else "NOT-REFUTED(anf)"}
        except S.Unsupported as e:
            return [_rec(name, "unknown", "pyvc", time.time() - t0, f"unsupported: {e}")], {}
    return task


def case_generate(n):
    fl = _mod()

    def make():
        return [GList([GList(list(S.fresh_bits(f"c{q}", (4,)))) for q in range(n)])], {}, True

    def post(args, kw, out):
        c = args[0]
        c = c.plain() if isinstance(c, GList) else c
        res = out.result.plain() if isinstance(out.result, GList) else out.result
        ok = isinstance(res, (list, tuple)) and len(res) == 4 and all(isinstance(a, np.ndarray) and a.shape == (n, n) for a in res)
        cl = [("shape", ok)]
        if ok:
            conds = []
            for e in range(4):
                for i in range(n):
                    for j in range(n):
                        ci = c[i].plain() if isinstance(c[i], GList) else c[i]
                        conds.append(L.EQ(res[e][i, j], ci[e] if i == j else 0))
            cl.append(("value", L.AND(conds)))
        return cl

    def replay_args(model, args, kwargs):
        c = args[0].plain()
        return [[[int(S.concretize(v, model)) for v in (ci.plain() if isinstance(ci, GList) else ci)] for ci in c]], {}

    return vc.Case(f"generate_local_clifford_symplectic[n={n}]", fl.generate_local_clifford_symplectic, make, post, replay_args=replay_args)


H_ACT = lambda x, z: (z, x)
S_ACT = lambda x, z: (x, X.Xor(x, z))


def task_to_circuit(n):
    """loop body of local_clifford_layer_to_circuit at every position i with a symbolic block"""
    def task():
        fl = _mod()
        t0 = time.time()
        recs = []
        node, _ = I.func_ast(fl.local_clifford_layer_to_circuit)
        loops = [x for x in ast.walk(node) if isinstance(x, ast.For)]
        if len(loops) != 1:
            return [_rec(f"to_circuit.body[n={n}]", "unknown", "pyvc", 0, "structure drift: expected one for loop")], {}
        for i in range(n):
            X.reset()
            M.USE_CIRCUIT_MODEL[0] = True
            try:
                A = []
                for e in range(4):
                    a = np.zeros((n, n), dtype=object)
                    a[...] = 0
                    a[i, i] = SB(X.var(f"b{e}"))
                    arr = a.view(S.SArr)
                    arr.decl = np.dtype(np.int8)
                    A.append(arr)
                it = I.Interp()
                qc = M.SCirc(n)
                fr = I.Frame({"A": GList(A), "n": n, "qc": qc, "i": i}, fl.local_clifford_layer_to_circuit.__globals__, fname="local_clifford_layer_to_circuit")
                flow = it.block(loops[0].body, fr, True)
                b = [X.var(f"b{e}") for e in range(4)]
                inv = X.Xor(X.And(b[0], b[3]), X.And(b[1], b[2]))
                exc = X.Or(*[r.guard for r in it.raised])
                v = X.prove([], X.Iff(exc, X.Not(inv)))
                recs.append(_rec(f"to_circuit.raises_iff_not_invertible[n={n},i={i}]", v.status, v.backend, v.time, v.info))
                # symbolic action of the emitted word on (x, z)
                x, z = X.var("px"), X.var("pz")
                cx, cz = x, z
                only_here = True
                for gd, (nm, qs) in qc.gates.slots:
                    if qs != (i,) or nm not in ("h", "s"):
                        only_here = X.And(only_here, X.Not(gd))
                        continue
                    nx, nz = (H_ACT if nm == "h" else S_ACT)(cx, cz)
                    cx, cz = X.Ite(gd, nx, cx), X.Ite(gd, nz, cz)
                want_x = X.Xor(X.And(b[0], x), X.And(b[1], z))
                want_z = X.Xor(X.And(b[2], x), X.And(b[3], z))
                v = X.prove([], X.Implies(inv, X.And(X.Iff(cx, want_x), X.Iff(cz, want_z), only_here)))
                recs.append(_rec(f"to_circuit.word_action_equals_block[n={n},i={i}]", v.status, v.backend, v.time, v.info,
                                 None if v.status != "refuted" else {"block": [int(bool((v.model or {}).get(f'b{e}', False))) for e in range(4)], "qubit": i}, None))
            except S.Unsupported as e:
                recs.append(_rec(f"to_circuit.body[n={n},i={i}]", "unknown", "pyvc", 0, f"unsupported: {e}"))
            finally:
                M.USE_CIRCUIT_MODEL[0] = False
        # canary: the word's action is NOT the transposed block in general
        cv = X.prove([], X.Implies(inv, X.And(X.Iff(cx, X.Xor(X.And(b[0], x), X.And(b[2], z))), X.Iff(cz, X.Xor(X.And(b[1], x), X.And(b[3], z))))))
        return recs, {"t": round(time.time() - t0, 3), "canary": "refuted+replayed" if cv.status == "refuted" else f"NOT-REFUTED({cv.status})"}
    return task
