"""Sign step of get_preparation_circuit (rotate_stabilizer_into_state + synth_circuit_from_stabilizers) for ALL sign vectors at once.

The two functions manipulate qiskit objects.  Their code is interpreted by pyvc with the qiskit names they use replaced by CONTRACT STUBS that implement exactly
the assumed dependency contracts Q1-Q3 through the independent oracle, but carry SYMBOLIC signs:

    PauliList(labels) / Pauli(label)   signed Paulis; `phase` is 2 for a minus sign (qiskit label convention: rightmost character = qubit 0)
    P.evolve(C, frame="s")             P -> C P C^dagger   (Q2); C a circuit or Clifford(circuit)
    StabilizerState(c).clifford.to_labels(mode="S")   the signed generators c Z_i c^dagger (Q1)
    QuantumCircuit(n), .h/.s/.x/.cx/.swap, .inverse(), .compose(o, front=True, inplace=...)   (Q3)

The generator letters are concrete, the n sign bits of the requested stabilizer are symbolic.  The control flow of both functions depends on signs only where an
X gate is inserted, so the returned circuit is a fixed Clifford circuit plus X gates guarded by XOR-affine conditions on the sign bits, and the postcondition
"every requested signed Pauli is in the signed stabilizer group of the result" is an XOR-affine identity in the sign bits (decided by normal form).  One run covers
all 2^n sign vectors of one (configuration, generator list)."""
from __future__ import annotations
import time
import numpy as np
from ..pyvc import expr as X, sym as S, interp as I, models as M
from ..pyvc.sym import SB, SV, GList
from ..oracle import pauli as P
from .. import adapt

PAULI_GATES = ("x", "y", "z")


def sgn_xor(a, b):
    return X.Xor(a, b)


class SymPauli:
    _hv_symbolic_ok = True

    """Hermitian Pauli with concrete letters and a symbolic sign (E|bool, True = minus)"""

    def __init__(self, n, x, z, sign):
        self.n, self.xm, self.zm, self.sign = n, x, z, sign

    @staticmethod
    def from_qiskit_label(label):            # noqa
        """label: str or SV of str; qiskit convention (rightmost character = qubit 0), optional leading sign"""
        if isinstance(label, SV):
            alts = [(g, SymPauli.from_qiskit_label(v)) for g, v in label.alts]
            base = alts[0][1]
            if any((p.xm, p.zm, p.n) != (base.xm, base.zm, base.n) for _, p in alts):
                raise S.Unsupported("alternative labels with different letters")
            sign = X.Or(*[X.And(g, p.sign) for g, p in alts])
            return SymPauli(base.n, base.xm, base.zm, sign)
        s = False
        if label[:1] in "+-":
            s = label[0] == "-"
            label = label[1:]
        n = len(label)
        x = z = 0
        for pos, ch in enumerate(label):
            q = n - 1 - pos
            if ch in "XY":
                x |= 1 << q
            if ch in "ZY":
                z |= 1 << q
        return SymPauli(n, x, z, s)

    @property
    def num_qubits(self):
        return self.n

    @property
    def phase(self):
        if self.sign is True:
            return 2
        if self.sign is False:
            return 0
        return SV([(self.sign, 2), (X.Not(self.sign), 0)])

    @property
    def x(self):
        return np.array([bool((self.xm >> q) & 1) for q in range(self.n)])

    @property
    def z(self):
        return np.array([bool((self.zm >> q) & 1) for q in range(self.n)])

    def __getitem__(self, q):
        return SymPauli(1, (self.xm >> q) & 1, (self.zm >> q) & 1, False)

    def __len__(self):
        return self.n

    def evolve(self, other, frame="h"):
        if frame != "s":
            raise S.Unsupported("Pauli.evolve frame != 's' in the contract stub")
        circ = other.circuit if isinstance(other, CliffordStub) else other
        if not isinstance(circ, SymCircuit):
            raise S.Unsupported("evolve through something that is not a circuit model")
        x, z, sign = self.xm, self.zm, self.sign
        for gd, (name, qs) in circ.gates.slots:
            nx, nz, ns = P.conj_gate((x, z, 0), name, list(qs))
            if gd is True:
                x, z = nx, nz
                sign = X.Xor(sign, bool(ns))
            else:
                if (nx, nz) != (x, z):
                    raise S.Unsupported("a guarded gate that changes the Pauli letters (only Pauli gates may be guarded)")
                sign = X.Xor(sign, X.And(gd, bool(ns)))
        return SymPauli(self.n, x, z, sign)

    def __str__(self):
        return P.to_label(self.n, (self.xm, self.zm, 0), False)[::-1]


class _Phases:
    """`.phase` of a PauliList: entries are 0 or 2, so `% 2` is identically 0 (that is all the code asks)"""

    def __init__(self, k):
        self.k = k

    def __mod__(self, m):
        if m != 2:
            raise S.Unsupported("phase % m")
        return np.zeros(self.k, dtype=int)


class StubPauliList:
    _hv_symbolic_ok = True

    def __init__(self, labels):
        items = labels.plain() if isinstance(labels, GList) else list(labels)
        self.items = [SymPauli.from_qiskit_label(l) for l in items]

    @property
    def phase(self):
        return _Phases(len(self.items))

    @property
    def num_qubits(self):
        return self.items[0].n

    def __len__(self):
        return len(self.items)

    def __getitem__(self, i):
        return self.items[i]

    def commutes_with_all(self, other):
        out = []
        for i, a in enumerate(self.items):
            if all(P.commute((a.xm, a.zm, 0), (b.xm, b.zm, 0)) for b in other.items):
                out.append(i)
        return out


class CliffordStub:
    _hv_symbolic_ok = True

    def __init__(self, circuit):
        self.circuit = circuit.snapshot() if isinstance(circuit, SymCircuit) else circuit

    def to_labels(self, mode="S"):
        c = self.circuit
        labs = []
        for i in range(c.n):
            p = SymPauli(c.n, 0, 1 << i, False).evolve(c, frame="s")
            if p.sign is not True and p.sign is not False:
                raise S.Unsupported("stabilizer labels of a circuit with guarded gates")
            labs.append(("-" if p.sign else "+") + P.to_label(c.n, (p.xm, p.zm, 0), False)[::-1])
        return labs


class StabilizerStateStub:
    _hv_symbolic_ok = True

    def __init__(self, circuit):
        self.clifford = CliffordStub(circuit)
        self.num_qubits = circuit.n


class SymCircuit(M.SCirc):
    """circuit model with guarded Pauli gates, inverse and compose (Q3)"""

    def __init__(self, n):
        super().__init__(int(n))

    @property
    def num_qubits(self):
        return self.n

    def snapshot(self):
        c = SymCircuit(self.n)
        c.gates = GList.guarded(list(self.gates.slots))
        return c

    def add(self, g, name, qubits):
        if g is not True and name not in PAULI_GATES:
            raise S.Unsupported(f"gate {name} under a symbolic guard")
        super().add(g, name, qubits)

    def guarded_inverse(self, g):
        c = SymCircuit(self.n)
        inv = {"s": "sdg", "sdg": "s"}
        c.gates = GList.guarded([(gd, (inv.get(nm, nm), qs)) for gd, (nm, qs) in reversed(self.gates.slots)])
        return c

    def guarded_copy(self, g):
        return self.snapshot()

    def guarded_compose(self, g, other, qubits=None, front=False, inplace=False):
        if qubits is not None or not isinstance(other, SymCircuit):
            raise S.Unsupported("compose form not modelled")
        extra = list(other.gates.slots)
        if inplace:
            add = [(X.And(g, gd), gt) for gd, gt in extra]
            for gd, (nm, qs) in add:
                if gd is not True and nm not in PAULI_GATES:
                    raise S.Unsupported("guarded in-place compose of non-Pauli gates")
            self.gates.slots = (add + self.gates.slots) if front else (self.gates.slots + add)
            return None
        c = SymCircuit(self.n)
        c.gates = GList.guarded((extra + list(self.gates.slots)) if front else (list(self.gates.slots) + extra))
        return c


def circuit_from_gates(n, gates):
    c = SymCircuit(n)
    for nm, qs in gates:
        c.add(True, nm, qs)
    return c


def sign_step_job(args):
    """wrapper: whatever goes wrong INSIDE the symbolic device (stubs, symbolic circuit algebra) withdraws the argument for this case; it is never a violation"""
    try:
        return _sign_step_job(args)
    except Exception as e:
        n, conn, rows, tag = args
        labels = [P.to_label(n, (x, z, 0), False) for x, z in rows]
        return [("C01.signstep.all_signs", None, f"sign:{n}:{conn}:{labels}", f"symbolic sign step not applicable to this code ({type(e).__name__}: {str(e)[:160]}); argument withdrawn",
                 {"n": n, "connectivity": conn, "paulis": labels})]


def _sign_step_job(args):
    """args = (n, conn, rows [(x,z)], tag).  One symbolic run for ALL 2^n sign vectors of this generator list."""
    n, conn, rows, tag = args
    from htstabilizer.stabilizer import Stabilizer
    import htstabilizer.stabilizer_circuits as sc
    import htstabilizer.rotate_stabilizer_into_state as rot
    t0 = time.time()
    X.reset()
    labels = [P.to_label(n, (x, z, 0), False) for x, z in rows]
    rp = {"n": n, "connectivity": conn, "paulis": labels, "signs": "all 2^n (symbolic)"}
    key = f"{n}:{conn}:{labels}"
    R, Sm, _ = adapt.matrices_from_gens(n, [(x, z, 0) for x, z in rows])
    st0 = Stabilizer((R, Sm))
    base = adapt.gates_of(sc._get_preparation_circuit_modulo_phase(st0, conn))        # the real sign-free circuit (concrete)
    st = Stabilizer((R.copy(), Sm.copy()))
    sbits = [X.var(f"sg_{j}") for j in range(n)]
    ph = np.empty(n, dtype=object)
    for j in range(n):
        ph[j] = SB(sbits[j])
    st.phases = ph.view(S.SArr)
    st.phases.decl = np.dtype(np.int8)
    it = I.Interp()
    pauli_ctor = lambda label: SymPauli.from_qiskit_label(label)
    pauli_ctor._hv_symbolic_ok = True
    it.name_overrides = {"PauliList": StubPauliList, "Clifford": CliffordStub, "Pauli": pauli_ctor, "StabilizerState": StabilizerStateStub,
                         "QuantumCircuit": SymCircuit}
    circ = circuit_from_gates(n, base)
    try:
        res = it.run(rot.rotate_stabilizer_into_state, [circ, st], {"inplace": True})
    except Exception as e:
        # Unsupported construct, or a use of qiskit that the contract stubs do not offer (TypeError / AttributeError inside a stub): the symbolic argument does not apply
        return [("C01.signstep.all_signs", None, f"sign:{key}", f"the sign step cannot be run against the qiskit contract stubs ({type(e).__name__}: {str(e)[:160]}); "
                 f"all-sign-vector argument withdrawn, the end-to-end families decide on concrete sign vectors", rp)]
    exc = X.Or(*[r.guard for r in it.raised])
    alts = res.alts if isinstance(res, SV) else [(True, res)]
    ok_goal = [X.Not(exc)]
    # requested signed Paulis must lie in the signed group of the result, for every sign vector
    gens0 = P.state_generators(n, base)                       # signed generators of the sign-free circuit (concrete)
    cg = P.canon(n, gens0)
    for gd, rc in alts:
        if not isinstance(rc, SymCircuit):
            ok_goal.append(X.Not(gd))
            continue
        # generator i of the result: C Z_i C^dagger with symbolic sign
        gi = [SymPauli(n, 0, 1 << i, False).evolve(rc, frame="s") for i in range(n)]
        letters_ok = all((g.xm, g.zm) == (h[0], h[1]) for g, h in zip(gi, gens0))
        if not letters_ok:
            ok_goal.append(X.Not(gd))
            continue
        for j, (x, z) in enumerate(rows):
            # decompose the requested Pauli over the generators g_i (concrete letters): P_j = prod_{i in I} g_i  up to a concrete sign c
            sel, acc = _decompose(n, gens0, (x, z))
            if sel is None:
                ok_goal.append(X.Not(gd))
                continue
            sign_in_group = X.Xor(bool(acc), *[X.Xor(gi[i].sign, bool(gens0[i][2])) for i in sel])
            # acc already contains the concrete signs of gens0; replace them by the symbolic ones: sign = acc xor sum (sym_i xor conc_i)
            ok_goal.append(X.Implies(gd, X.Iff(sign_in_group, sbits[j])))
    # self-validation of the contract stubs: the symbolic result, evaluated at two concrete sign vectors, must be the gate list the real library (real qiskit) returns
    import random as _rnd
    rr = _rnd.Random(hash(key) & 0xFFFF)
    for _ in range(2 if (hash(key) & 3) == 0 else 0):        # every fourth case (deterministic)
        sv = [rr.randrange(2) for _ in range(n)]
        asg = {f"sg_{j}": bool(sv[j]) for j in range(n)}
        sym_gates = None
        for gd, rc in alts:
            if X.evaluate([gd], asg)[0] and isinstance(rc, SymCircuit):
                keep = X.evaluate([g for g, _ in rc.gates.slots], asg)
                sym_gates = [(nm, list(qs)) for (g, (nm, qs)), k in zip(rc.gates.slots, keep) if k]
        real = adapt.gates_of(sc.get_preparation_circuit(Stabilizer((R.copy(), Sm.copy(), np.array(sv, dtype=np.int8))), conn))
        if sym_gates != real:
            return [("C01.signstep.stub_faithful", None, f"stub:{key}", f"contract stubs disagree with qiskit on {labels} signs {sv}: {sym_gates} vs {real}", rp)]
    # canary: the opposite claim (every requested sign is WRONG) must be refutable
    v = X.prove([], X.And(*ok_goal), timeout_s=30)
    what = f"sign step for {labels} on {n}-{conn}: for some sign vector the requested signed Paulis are not all in the signed group of the returned circuit"
    if v.status == "refuted":
        sv = [int(bool((v.model or {}).get(f"sg_{j}", False))) for j in range(n)]
        rp = dict(rp, signs=sv, paulis=[("-" if b else "+") + l for b, l in zip(sv, labels)])
        what += f" (sign vector {sv})"
        # A refutation obtained against CONTRACT STUBS of qiskit is only reported if the real library (real qiskit) shows the same failure on that sign vector;
        # otherwise the stubs do not cover what this code does with qiskit and the symbolic verdict is withheld.
        try:
            gates = adapt.gates_of(sc.get_preparation_circuit(Stabilizer((R.copy(), Sm.copy(), np.array(sv, dtype=np.int8))), conn))
            cgn = P.canon(n, P.state_generators(n, gates))
            got = [P.member_sign(n, cgn, (x, z, 0)) for x, z in rows] if cgn is not None else [None] * n
            native_bad = any(g is None or g != b for g, b in zip(got, sv))
            detail = f"real run: sign bits in the prepared group {got}"
        except Exception as e:
            native_bad, detail = True, f"real run raised {type(e).__name__}: {e}"
        if not native_bad:
            return [("C01.signstep.all_signs", None, f"sign:{key}", f"symbolic run against the qiskit contract stubs refuted the sign step for {labels} on {n}-{conn} at sign vector {sv}, "
                     f"but the real library is correct there ({detail}): the stubs do not model this code; verdict withheld", rp)]
        what += "; " + detail
    return [("C01.signstep.all_signs", v.status == "proved" if v.status != "unknown" else None, f"sign:{key}", what, rp)]


def _decompose(n, gens, target):
    """indices I and sign bit with prod_{i in I} gens[i] = (-1)^sign * target (letters), or (None, None)"""
    x, z = target
    for mask in range(1 << n):
        acc = (0, 0, 0)
        for i in range(n):
            if (mask >> i) & 1:
                acc = P.mul(acc, gens[i])
        if (acc[0], acc[1]) == (x, z):
            return [i for i in range(n) if (mask >> i) & 1], acc[2]
    return None, None
