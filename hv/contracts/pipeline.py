"""Modular verification of the glue code in htstabilizer.stabilizer_circuits against the CALLEES' contracts.

The four functions are interpreted by pyvc with every callee replaced by an uninterpreted contract stub that returns a symbolic token
(`Tok`): the class id, the table entry, the layer, circuits and the operations `inverse`, `compose`, `run` build token terms.  The obligation is
that the returned term is exactly the one the correctness lemma K4 (DESIGN 5) talks about, and that each callee receives exactly the arguments
its contract is stated for - for every stabilizer, every configuration, every n (nothing in the glue depends on n):

  _get_preparation_circuit_modulo_phase(st, c) = cancel( compose( table(n, c, id(st)).parse_circuit(), inverse( word( layer ) ) ) )
        with layer = find_layer(st.R, st.S, decompress(n, table(n, c, id(st)).graph_id)),  gate(n, c) asserted first,
        RuntimeError raised exactly when the layer is None
  get_readout_circuit(st, c)          = inverse( modphase(st, c) )            (gate asserted)
  get_preparation_circuit(st, c)      = rotate( modphase(st, c), st, inplace=True )
  compress_preparation_circuit(q, c)  = rotate( modphase(Stabilizer(q), c), q, inplace=True )
"""
from __future__ import annotations
import time
from ..pyvc import expr as X, sym as S, interp as I
from ..pyvc.sym import SV


class Tok:
    """uninterpreted term"""

    def __init__(self, head, *args, **kw):
        self.head, self.args, self.kw = head, args, tuple(sorted(kw.items()))

    def key(self):
        def k(a):
            if isinstance(a, Tok):
                return a.key()
            if isinstance(a, (list, tuple)):
                return tuple(k(x) for x in a)
            return ("const", repr(a)) if not isinstance(a, (int, str, bool, type(None))) else a
        return (self.head, tuple(k(a) for a in self.args), tuple((n, k(v)) for n, v in self.kw))

    def __repr__(self):
        return f"{self.head}({', '.join(map(repr, self.args))}{''.join(f', {n}={v!r}' for n, v in self.kw)})"

    # circuit-like operations stay symbolic
    def inverse(self):
        return Tok("inverse", self)

    def compose(self, other, **kw):
        return Tok("compose", self, other, **kw)

    def parse_circuit(self):
        return Tok("parse_circuit", self)

    def id(self):
        return Tok("id", self)

    def run(self, c):
        return Tok("run", self, c)

    def __call__(self, *args, **kw):
        return Tok("call", self, *args, **kw)

    def __getattr__(self, name):
        if name.startswith("__"):
            raise AttributeError(name)
        return Tok("attr:" + name, self)


def norm(t):
    """canonical form of a term modulo identities that hold for circuits whatever the callees are (so that harmless rewrites of the glue do not break the obligation):
    inverse(inverse(x)) = x;  compose is associative (flattened; `front=True` puts the argument first; `inplace=False` is the default);
    inverse(a ; b ; c) = inverse(c) ; inverse(b) ; inverse(a);  a single keyword argument of a call equals the same positional argument."""
    if isinstance(t, (list, tuple)):
        return tuple(norm(x) for x in t)
    if not isinstance(t, Tok):
        return ("const", repr(t)) if not isinstance(t, (int, str, bool, type(None))) else t
    kw = dict(t.kw)
    if t.head == "compose" and len(t.args) == 2 and set(kw) <= {"front", "inplace"} and kw.get("inplace", False) is False and isinstance(kw.get("front", False), bool):
        a, b = norm(t.args[0]), norm(t.args[1])
        if kw.get("front", False):
            a, b = b, a
        seq = (list(a[1]) if isinstance(a, tuple) and a and a[0] == "SEQ" else [a]) + (list(b[1]) if isinstance(b, tuple) and b and b[0] == "SEQ" else [b])
        return ("SEQ", tuple(seq))
    if t.head == "inverse" and len(t.args) == 1 and not kw:
        a = norm(t.args[0])
        if isinstance(a, tuple) and a and a[0] == "inverse":
            return a[1]
        if isinstance(a, tuple) and a and a[0] == "SEQ":
            return ("SEQ", tuple(_inv(x) for x in reversed(a[1])))
        return ("inverse", a)
    args = tuple(norm(a) for a in t.args)
    if t.head == "call" and len(kw) == 1 and len(args) == 1:
        return ("call", args + (norm(next(iter(kw.values()))),), ())
    return (t.head, args, tuple((n, norm(v)) for n, v in sorted(kw.items())))


def _inv(a):
    return a[1] if isinstance(a, tuple) and a and a[0] == "inverse" else ("inverse", a)


def same(a, b):
    return isinstance(a, Tok) and isinstance(b, Tok) and norm(a) == norm(b)


def _rec(name, ok, info="", status=None):
    return (name, status or ("proved" if ok else "refuted"), "pyvc-tokens", 0.0, info, None if ok else {"term": info}, None)


def glue_tasks():
    def task():
        import htstabilizer.stabilizer_circuits as sc
        import htstabilizer.lc_classes as lcc
        import htstabilizer.circuit_lookup as cl
        from htstabilizer.graph import Graph
        t0 = time.time()
        recs = []
        log = []
        NONE_LAYER = X.var("layer_is_none")

        def stub(head, logit=True):
            def applier(interp, args, kwargs, g):
                t = Tok(head, *args, **kwargs)
                if logit:
                    log.append(t)
                return t
            return applier

        def find_layer(interp, args, kwargs, g):
            t = Tok("find_layer", *args, **kwargs)
            log.append(t)
            return SV([(NONE_LAYER, None), (X.Not(NONE_LAYER), Tok("LAYER", t))])

        def gate(interp, args, kwargs, g):
            log.append(Tok("gate", *args))
            return None

        canceller = Tok("CANCELLER")
        base = {sc.assert_connectivity_is_supported: gate, lcc.determine_lc_class: stub("classify"), cl.stabilizer_circuit_lookup: stub("table"),
                sc.find_local_clifford_layer: find_layer, sc.local_clifford_layer_to_circuit: stub("word"), Graph.decompress: stub("decompress", False),
                Graph.decompress.__func__ if hasattr(Graph.decompress, "__func__") else Graph.decompress: stub("decompress", False)}
        st = Tok("ST")
        conn = Tok("CONN")

        def run(fn, args, modular):
            del log[:]
            it = I.Interp(modular=modular)
            # any other repository function reached from the glue (e.g. an extracted helper) is interpreted in place; if that leaves the modelled subset the
            # obligation is UNDECIDED (structure drift), never refuted for that reason
            saved = sc.single_qubit_gate_canceller
            sc.single_qubit_gate_canceller = canceller
            try:
                res = it.run(fn, args)
            finally:
                sc.single_qubit_gate_canceller = saved
            return it, res

        # ---- modphase
        try:
            it, res = run(sc._get_preparation_circuit_modulo_phase, [st, conn], dict(base))
            nq = Tok("attr:num_qubits", st)
            ident = Tok("id", Tok("classify", st))
            table = Tok("table", nq, conn, ident)
            graph = Tok("decompress", nq, Tok("attr:graph_id", table))
            layer = Tok("LAYER", Tok("find_layer", Tok("attr:R", st), Tok("attr:S", st), graph))
            want = Tok("run", canceller, Tok("compose", Tok("parse_circuit", table), Tok("inverse", Tok("word", layer))))
            alts = res.alts if isinstance(res, SV) else [(True, res)]
            vals = [v for g, v in alts if v is not None]
            ok_val = len(vals) == 1 and same(vals[0], want)
            recs.append(_rec("glue.modphase.result_term", ok_val, f"got {vals}, want {want}"))
            rz = X.Or(*[r.guard for r in it.raised if r.etype == "RuntimeError"])
            other = [r for r in it.raised if r.etype != "RuntimeError"]
            ok_raise = X.prove([], X.Iff(rz, NONE_LAYER)).status == "proved" and not other
            recs.append(_rec("glue.modphase.raises_iff_no_layer", ok_raise, f"raise sites {[(r.etype, r.where) for r in it.raised]}"))
            gates = [i for i, t in enumerate(log) if t.head == "gate"]
            firstlk = next((i for i, t in enumerate(log) if t.head in ("table", "classify", "find_layer")), None)
            ok_gate = bool(gates) and same(log[gates[0]], Tok("gate", nq, conn)) and (firstlk is None or gates[0] < firstlk)
            # WHERE the configuration gate sits is a proof device (it dominates every lookup), not part of the property: if it moved, the argument is withdrawn (UNDECIDED)
            # and the entry-point grid of C08 decides natively whether unsupported configurations are still rejected
            recs.append(_rec("glue.modphase.gate_first", ok_gate, f"call log {log[:4]}", status=None if ok_gate else "unknown"))
        except (S.Unsupported, NameError, AttributeError, TypeError, ValueError, KeyError, IndexError) as e:
            recs.append(_rec("glue.modphase.result_term", False, f"structure drift: {type(e).__name__}: {e}", status="unknown"))
        # ---- callers of modphase
        mod = dict(base)
        mod[sc._get_preparation_circuit_modulo_phase] = stub("modphase")
        mod[sc.rotate_stabilizer_into_state] = stub("rotate")
        mod[sc.Stabilizer] = stub("Stabilizer")
        cases = [
            ("readout", sc.get_readout_circuit, [st, conn], Tok("inverse", Tok("modphase", st, conn)), True),
            ("preparation", sc.get_preparation_circuit, [st, conn], Tok("rotate", Tok("modphase", st, conn), st, inplace=True), False),
            ("compress", sc.compress_preparation_circuit, [Tok("QC"), conn], Tok("rotate", Tok("modphase", Tok("Stabilizer", Tok("QC")), conn), Tok("QC"), inplace=True), False),
        ]
        for nm, fn, args, want, needs_gate in cases:
            try:
                it, res = run(fn, args, mod)
                ok = same(res, want) and not it.raised
                recs.append(_rec(f"glue.{nm}.result_term", ok, f"got {res}, want {want}"))
                if needs_gate:
                    okg = bool(log) and log[0].head == "gate" and same(log[0], Tok("gate", Tok("attr:num_qubits", st), conn))
                    recs.append(_rec(f"glue.{nm}.gate_first", okg, f"call log {log[:3]}", status=None if okg else "unknown"))
            except (S.Unsupported, NameError, AttributeError, TypeError, ValueError, KeyError, IndexError) as e:
                recs.append(_rec(f"glue.{nm}.result_term", False, f"structure drift: {type(e).__name__}: {e}", status="unknown"))
        return recs, {"t": round(time.time() - t0, 3)}
    return [task]


def tomography_glue_tasks():
    """density_matrix(full) of both fitters = _compute_density_matrix_from_pauli_expectation_values(self.expectation_values(full_hilbert_space=full)); the full-state
    fitter's expectation_values is the union over circuits of the stabilizer fitter's (checked by C10.fitter.*)."""
    def task():
        import htstabilizer.tomography as T
        t0 = time.time()
        recs = []
        for cls in (T.FullStateTomographyFitter, T.StabilizerMeasurementFitter):
            name = f"glue.density_matrix[{cls.__name__}]"
            try:
                it = I.Interp(modular={T._compute_density_matrix_from_pauli_expectation_values: lambda interp, a, k, g: Tok("linear_inversion", *a, **k),
                                       cls.expectation_values: lambda interp, a, k, g: Tok("expectation_values", *a, **k)})
                selfobj = Tok("SELF")
                flag = Tok("FLAG")
                res = it.run(cls.density_matrix, [selfobj], {"full_hilbert_space": flag})
                want = Tok("linear_inversion", Tok("call", Tok("attr:expectation_values", selfobj), full_hilbert_space=flag))      # self.expectation_values(full_hilbert_space=flag)
                recs.append(_rec(name, same(res, want) and not it.raised, f"got {res}, want {want}"))
            except (S.Unsupported, NameError, AttributeError, TypeError, ValueError, KeyError, IndexError) as e:
                recs.append(_rec(name, False, f"structure drift: {type(e).__name__}: {e}", status="unknown"))
        return recs, {"t": round(time.time() - t0, 3)}
    return [task]
