"""Sidecar contracts for htstabilizer.stabilizer.Stabilizer (properties C15, C08, C06 accessors).

  expand(self)                    post: (X, Z) of shape (n, 2^n); column i = XOR of generator columns j with bit j of i set; self.R/S unmodified
  is_qubit_entangled(self, q)     post: True <=> two generators carry different non-identity Paulis on qubit q
  is_equivalent_mod_phase(a, b)   post: True <=> same n and every cross symplectic product <gen_i(a), gen_j(b)> vanishes
  __eq__                          post: True <=> n equal and R, S, phases equal entrywise
  validate(self)                  post: True <=> columns of [R;S] linearly independent and pairwise symplectic products vanish
                                  (modular over f2.rank's contract: rank = number of pivots of an RREF with the same kernel)
"""
from __future__ import annotations
import itertools
import numpy as np
from ..pyvc import expr as X, sym as S, vc
from ..pyvc.sym import GList
from .. import speclib as L


def mk_stab(n, tag="", phases=True):
    from htstabilizer.stabilizer import Stabilizer
    st = Stabilizer.__new__(Stabilizer)
    st.num_qubits = n
    st.R = S.fresh_bits(f"r{tag}", (n, n))
    st.S = S.fresh_bits(f"s{tag}", (n, n))
    if phases:
        st.phases = S.fresh_bits(f"p{tag}", (n,))
    return st


def conc_stab(st, model):
    from htstabilizer.stabilizer import Stabilizer
    R = np.asarray(S.concretize(st.R, model)).astype(np.int8)
    Sm = np.asarray(S.concretize(st.S, model)).astype(np.int8)
    if hasattr(st, "phases"):
        return Stabilizer((R, Sm, np.asarray(S.concretize(st.phases, model)).astype(np.int8)))
    return Stabilizer((R, Sm))


def _freeze_stabs(args):
    out = []
    for i, a in enumerate(args):
        if type(a).__name__ == "Stabilizer":
            out += [(f"arg{i}.R", a.R), (f"arg{i}.S", a.S)] + ([(f"arg{i}.phases", a.phases)] if hasattr(a, "phases") else [])
    return out


def _replay_self(model, args, kwargs):
    return [conc_stab(a, model) if type(a).__name__ == "Stabilizer" else S.concretize(a, model) for a in args], {}


def case_expand(n):
    from htstabilizer.stabilizer import Stabilizer

    def make():
        return [mk_stab(n)], {}, True

    def post(args, kw, out):
        st = args[0]
        res = out.result
        ok = isinstance(res, tuple) and len(res) == 2 and all(isinstance(x, np.ndarray) and x.shape == (n, 1 << n) for x in res)
        cl = [("shape", ok)]
        if ok:
            Xm, Zm = res
            wantX = np.empty((n, 1 << n), dtype=object)
            wantZ = np.empty((n, 1 << n), dtype=object)
            for i in range(1 << n):
                for q in range(n):
                    wantX[q, i] = L.XOR(*[st.R[q, j] for j in range(n) if (i >> j) & 1]) if i else 0
                    wantZ[q, i] = L.XOR(*[st.S[q, j] for j in range(n) if (i >> j) & 1]) if i else 0
            cl.append(("X", L.EQ(Xm, wantX)))
            cl.append(("Z", L.EQ(Zm, wantZ)))
        return cl

    def canary(args, kw, out):
        return L.EQ(out.result[0][:, 1], out.result[0][:, (1 << n) - 1])

    c = vc.Case(f"expand[n={n}]", Stabilizer.expand, make, post, canary=canary if n >= 2 else None, replay_args=_replay_self, freeze=_freeze_stabs)
    c.frozen = ()
    return c


def spec_entangled(R, Sm, q, n):
    """two generators carry different non-identity Paulis on q"""
    terms = []
    for i in range(n):
        for j in range(i + 1, n):
            xi, zi, xj, zj = L.bit(R[q, i]), L.bit(Sm[q, i]), L.bit(R[q, j]), L.bit(Sm[q, j])
            terms.append(X.And(X.Or(xi, zi), X.Or(xj, zj), X.Or(X.Xor(xi, xj), X.Xor(zi, zj))))
    return X.Or(*terms)


def case_entangled(n, q):
    from htstabilizer.stabilizer import Stabilizer

    def make():
        st = mk_stab(n)
        return [st, q], {}, X.And(*spec_valid(st.R, st.S, n))        # valid stabilizers only (property sentence)

    def post(args, kw, out):
        st = args[0]
        return [("value", L.IFF(out.result, spec_entangled(st.R, st.S, q, n)))]

    return vc.Case(f"is_qubit_entangled[n={n},q={q}]", Stabilizer.is_qubit_entangled, make, post,
                   canary=(lambda args, kw, out: L.NOT(out.result)) if n >= 2 else None, replay_args=_replay_self, freeze=_freeze_stabs)


def spec_cross_commute(a, b, n):
    conds = []
    for i in range(n):
        for j in range(n):
            conds.append(X.Not(X.Xor(*[X.And(L.bit(a.R[q, i]), L.bit(b.S[q, j])) for q in range(n)],
                                     *[X.And(L.bit(a.S[q, i]), L.bit(b.R[q, j])) for q in range(n)])))
    return X.And(*conds)


def case_equiv(n):
    from htstabilizer.stabilizer import Stabilizer

    def make():
        # the property speaks about VALID stabilizers only (n independent commuting Paulis each); what the predicate answers on other inputs is not pinned
        a, b = mk_stab(n, "a"), mk_stab(n, "b")
        pre = X.And(*spec_valid(a.R, a.S, n), *spec_valid(b.R, b.S, n))
        return [a, b], {}, pre

    def post(args, kw, out):
        return [("value", L.IFF(out.result, spec_cross_commute(args[0], args[1], n)))]

    return vc.Case(f"is_equivalent_mod_phase[n={n}]", Stabilizer.is_equivalent_mod_phase, make, post,
                   canary=lambda args, kw, out: out.result, replay_args=_replay_self, freeze=_freeze_stabs)


def case_equiv_size_mismatch(n, m):
    from htstabilizer.stabilizer import Stabilizer

    def make():
        return [mk_stab(n, "a"), mk_stab(m, "b")], {}, True

    def post(args, kw, out):
        return [("value", L.NOT(out.result))]

    return vc.Case(f"is_equivalent_mod_phase[n={n},other={m}]", Stabilizer.is_equivalent_mod_phase, make, post, replay_args=_replay_self)


def case_eq(n):
    from htstabilizer.stabilizer import Stabilizer

    def make():
        return [mk_stab(n, "a"), mk_stab(n, "b")], {}, True

    def post(args, kw, out):
        a, b = args
        return [("value", L.IFF(out.result, L.AND(L.EQ(a.R, b.R), L.EQ(a.S, b.S), L.EQ(a.phases, b.phases))))]

    return vc.Case(f"__eq__[n={n}]", Stabilizer.__eq__, make, post, canary=lambda args, kw, out: out.result, replay_args=_replay_self)


def spec_valid(R, Sm, n):
    RS = np.concatenate([np.asarray(R, dtype=object), np.asarray(Sm, dtype=object)])
    indep = []
    for bits in range(1, 1 << n):
        v = [(bits >> i) & 1 for i in range(n)]
        indep.append(X.Or(*[L.B(x) for x in L.gf2_matvec(RS, v)]))
    comm = []
    for i in range(n):
        for j in range(i + 1, n):
            comm.append(X.Not(X.Xor(*[X.And(L.bit(R[q, i]), L.bit(Sm[q, j])) for q in range(n)],
                                    *[X.And(L.bit(Sm[q, i]), L.bit(R[q, j])) for q in range(n)])))
    return X.And(*indep), X.And(*comm)


def case_validate(n, timeout=120.0):
    """modular over f2.rank: rank(A) = number of pivots of some (B, piv) in RREF form with ker B = ker A (f2 contract, C18)"""
    from htstabilizer.stabilizer import Stabilizer
    import htstabilizer.f2_algebra as f2

    def rank_contract(interp, args, kwargs, g):
        A = args[0]
        m, k = A.shape
        Bm = S.fresh_bits("b", (m, k))
        piv = GList.guarded([(X.var(f"pv_{c}"), c) for c in range(k)])
        interp.hyps.append(S.bexpr(L.rref_form(Bm, piv)))
        for bits in range(1, 1 << k):
            v = [(bits >> i) & 1 for i in range(k)]
            az = X.And(*[X.Not(L.B(x)) for x in L.gf2_matvec(A, v)])
            bz = X.And(*[X.Not(L.B(x)) for x in L.gf2_matvec(Bm, v)])
            interp.hyps.append(X.Iff(az, bz))
        return piv.length()

    def make():
        return [mk_stab(n)], {}, True

    def post(args, kw, out):
        st = args[0]
        indep, comm = spec_valid(st.R, st.S, n)
        return [("value", L.IFF(out.result, X.And(indep, comm)))]

    return vc.Case(f"validate[n={n}]", Stabilizer.validate, make, post, modular={f2.rank: rank_contract}, timeout=timeout,
                   canary=lambda args, kw, out: out.result, replay_args=_replay_self, cover=(n <= 4), freeze=_freeze_stabs)


def case_init_tuple(n, with_phases, dtype="int8"):
    """Stabilizer((R, S[, phases])): attributes equal the inputs as int8, num_qubits = n, zero phases when omitted; inputs unmodified"""
    from htstabilizer.stabilizer import Stabilizer

    def make():
        R = S.fresh_bits("r", (n, n), decl=dtype)
        Sm = S.fresh_bits("s", (n, n), decl=dtype)
        data = (R, Sm, S.fresh_bits("p", (n,), decl=dtype)) if with_phases else (R, Sm)
        return [Stabilizer.__new__(Stabilizer), data], {}, True

    def post(args, kw, out):
        st, data = args
        if out.interp is None:
            st = out.result if out.result is not None else st
        ok = all(hasattr(st, a) for a in ("R", "S", "phases", "num_qubits"))
        cl = [("attributes", ok)]
        if ok:
            cl.append(("num_qubits", L.EQ(st.num_qubits, n)))
            cl.append(("R", L.EQ(st.R, data[0])))
            cl.append(("S", L.EQ(st.S, data[1])))
            cl.append(("phases", L.EQ(st.phases, data[2] if with_phases else np.zeros(n, dtype=np.int64))))
            cl.append(("dtypes_integer", all(np.dtype(S.decl_of(getattr(st, a)) if isinstance(getattr(st, a), S.SArr) else getattr(st, a).dtype).kind in "iub" for a in ("R", "S", "phases"))))
        return cl

    def native(st, data):
        return Stabilizer(data)

    def replay_args(model, args, kwargs):
        data = tuple(np.asarray(S.concretize(a, model)).astype(dtype) for a in args[1])
        return [None, data], {}

    return vc.Case(f"Stabilizer.__init__[tuple,n={n},phases={with_phases},{dtype}]", Stabilizer.__init__, make, post, native_call=native, replay_args=replay_args,
                   freeze=lambda args: [(f"data{i}", a) for i, a in enumerate(args[1])], canary=lambda args, kw, out: L.EQ(args[0].R if out.interp is not None else out.result.R, np.zeros((n, n), dtype=np.int64)))


def case_init_graph(n, dtype="int8"):
    """Stabilizer(graph): generators X_v Z_N(v), zero phases; the graph's adjacency matrix (of any integer dtype) is not written"""
    from htstabilizer.stabilizer import Stabilizer
    from .layer import mk_graph, conc_graph

    def make():
        g = mk_graph(n)
        g.adjacency_matrix.decl = np.dtype(dtype)
        return [Stabilizer.__new__(Stabilizer), g], {}, True

    def post(args, kw, out):
        st, g = args
        if out.interp is None:
            st = out.result if out.result is not None else st
        ok = all(hasattr(st, a) for a in ("R", "S", "phases", "num_qubits"))
        cl = [("attributes", ok)]
        if ok:
            cl.append(("num_qubits", L.EQ(st.num_qubits, n)))
            cl.append(("R_is_identity", L.EQ(st.R, np.eye(n, dtype=np.int64))))
            cl.append(("S_is_adjacency", L.EQ(st.S, g.adjacency_matrix)))
            cl.append(("phases_zero", L.EQ(st.phases, np.zeros(n, dtype=np.int64))))
        return cl

    def replay_args(model, args, kwargs):
        return [None, conc_graph(args[1], model)], {}

    def replay_args(model, args, kwargs):            # noqa: F811  (dtype-aware)
        from htstabilizer.graph import Graph
        g = Graph(n)
        g.adjacency_matrix = np.asarray(S.concretize(args[1].adjacency_matrix, model)).astype(dtype)
        return [None, g], {}

    return vc.Case(f"Stabilizer.__init__[graph,n={n},{dtype}]", Stabilizer.__init__, make, post, native_call=lambda st, g: Stabilizer(g), replay_args=replay_args,
                   freeze=lambda args: [("graph.adjacency_matrix", args[1].adjacency_matrix)])


def case_init_circuit(n):
    """Stabilizer(circuit): reads the tableau of qiskit's StabilizerState(circuit).clifford as the ASSUMED contract Q1 lays it out (rows n..2n-1 are the stabilizer
    generators, X block in columns [0,n), Z block in [n,2n), sign in the last column): generator j = row n+j.  The qiskit objects are replaced by a stub whose
    tableau is fully symbolic, so the indexing of the real constructor is verified for every tableau."""
    from htstabilizer.stabilizer import Stabilizer
    import qiskit
    holder = {}

    class _Cliff:
        pass

    class StubState:
        _hv_symbolic_ok = True

        def __init__(self, circuit):
            self.num_qubits = n
            self.clifford = _Cliff()
            self.clifford.tableau = holder["tab"]

    def make():
        holder["tab"] = S.fresh_bits("t", (2 * n, 2 * n + 1), decl="bool")
        qc = qiskit.QuantumCircuit(n)
        return [Stabilizer.__new__(Stabilizer), qc], {}, True

    def post(args, kw, out):
        st = args[0]
        tab = holder["tab"]
        ok = all(hasattr(st, a) for a in ("R", "S", "phases", "num_qubits"))
        cl = [("attributes", ok)]
        if ok:
            cl.append(("num_qubits", L.EQ(st.num_qubits, n)))
            wantR = np.empty((n, n), dtype=object)
            wantS = np.empty((n, n), dtype=object)
            for q in range(n):
                for j in range(n):
                    wantR[q, j] = tab[n + j, q]
                    wantS[q, j] = tab[n + j, n + q]
            cl.append(("R_from_x_block", L.EQ(st.R, wantR)))
            cl.append(("S_from_z_block", L.EQ(st.S, wantS)))
            cl.append(("phases_from_last_column", L.EQ(st.phases, np.array([tab[n + j, 2 * n] for j in range(n)], dtype=object))))
        return cl

    c = vc.Case(f"Stabilizer.__init__[circuit-tableau-layout,n={n}]", Stabilizer.__init__, make, post, cover=False)
    c.name_overrides = {"StabilizerState": StubState}
    return c
