"""Runs SYM tasks (vc.Case or custom callables) in the process pool and books the records into the Ctx."""
from __future__ import annotations
import os, re, time
from . import core
from .core import SYM, PROVED, REFUTED, UNKNOWN
from .pyvc import vc


def family_of(pid, name):
    """'rref[3x3]:kernel.fwd.row2' -> 'C18.rref.kernel.fwd'"""
    base = re.sub(r"\[[^\]]*\]", "", name)
    base = base.replace(":", ".")
    base = re.sub(r"\.row\d+$", "", base)
    base = re.sub(r"\d+$", "", base) if base.endswith(tuple("0123456789")) and ".arg" not in base else base
    return f"{pid}.{base}"


def _run_task(t):
    """a task that crashes is an 'error' record (checker crash for that obligation), never a violation"""
    import traceback
    try:
        if isinstance(t, vc.Case):
            return vc.run_case(t)
        return t()
    except Exception as e:
        from .pyvc.sym import Unsupported
        name = getattr(t, "name", None) or getattr(t, "__name__", "task")
        if isinstance(e, (Unsupported, NameError)):
            return [(f"{name}:interp", "unknown", "pyvc", 0.0, f"unsupported / structure drift: {type(e).__name__}: {e}", None, None)], {}
        return [(f"{name}:interp", "error", "pyvc", 0.0, traceback.format_exc()[-1200:], None, None)], {}


def run(ctx: core.Ctx, tasks, procs=None, label=""):
    """tasks: list of vc.Case / zero-arg callables returning (records, stats).  Books everything into ctx."""
    t0 = time.time()
    if "interpreter_semantics_selftest" not in ctx.selfcheck:
        # Python / numpy semantics where a naive model goes wrong (one-shot iterators, late-binding closures, fixed-width wrap-around, numpy booleans):
        # the interpreter must agree with CPython or refuse; any other value is a defect of the checker, not of the repository
        from .pyvc import semantics_selftest
        agree, refused, problems = semantics_selftest.run()
        ctx.selfcheck["interpreter_semantics_selftest"] = {"agree_with_cpython": agree, "refused_as_unsupported": refused, "problems": problems}
        if problems:
            raise core.CheckerError("interpreter semantics self-test failed: " + "; ".join(problems[:3]))
    results = core.pmap(_run_task, tasks, chunks=1, procs=procs)
    canaries = ctx.selfcheck.setdefault("canaries", {"refuted_and_replayed": 0, "failed": []})
    interp_stats = ctx.extra.setdefault("interpreter", {"cases": 0, "statements_interpreted": 0, "feasibility_queries": 0, "interp_time_s": 0.0})
    for t, (recs, stats) in zip(tasks, results):
        if stats:
            interp_stats["cases"] += 1
            interp_stats["statements_interpreted"] += stats.get("stmts", 0)
            interp_stats["feasibility_queries"] += stats.get("feasibility_queries", 0)
            interp_stats["interp_time_s"] = round(interp_stats["interp_time_s"] + stats.get("interp_s", stats.get("t", 0.0)), 3)
        # A path that ended because a Python exception escaped from a concrete operation INSIDE the interpreter is either a program error or a gap in the
        # interpreter's numpy model; without a native confirmation the two cannot be told apart, so such refutations are withheld (UNDECIDED).
        suspect = (stats or {}).get("native_raise_sites") or []
        unfaithful = any(st_ == "refuted" and nat is False and not (cx is None or "loop_state" in (cx or {}) or nm_.split(":")[-1].startswith("side."))
                         for nm_, st_, _b, _d, _i, cx, nat in recs)
        if stats:
            c = stats.get("canary")
            if c is not None:
                if c == "refuted+replayed":
                    canaries["refuted_and_replayed"] += 1
                elif unfaithful or suspect:
                    fam = ctx.family(family_of(ctx.pid, f"{getattr(t, 'name', '?')}:canary"), SYM, "pyvc")
                    ctx.record(fam, UNKNOWN, {"obligation": f"{getattr(t, 'name', '?')}:canary", "info": c})
                    ctx.undecide(fam, f"{getattr(t, 'name', '?')}: canary not confirmed ({c}) on code the interpreter does not model faithfully; verdicts of this case are withheld")
                else:
                    canaries["failed"].append(f"{getattr(t, 'name', '?')}: {c}")
        for name, status, backend, dt, info, cex, native in recs:
            fam = ctx.family(family_of(ctx.pid, name), SYM, backend or "pyvc")
            if backend and backend not in fam.backend.split("+"):
                fam.backend = fam.backend + "+" + backend
            fam.exhaustive = True
            if status == "proved":
                ctx.record(fam, PROVED, {"obligation": name, "backend": backend, "time_s": dt}, dt)
            elif status == "refuted":
                ctx.record(fam, REFUTED, {"obligation": name, "backend": backend}, dt)
                internal = cex is None or "loop_state" in (cex or {}) or name.split(":")[-1].startswith("side.")
                if native is True:
                    ctx.violate(fam, f"{name}", f"{name} refuted; the counterexample replays on the real function", cex, True, info)
                elif (internal or native is None) and suspect:
                    fam.refuted -= 1
                    fam.unknown += 1
                    ctx.undecide(fam, f"{name}: refuted, but a path of the symbolic run ended in a Python exception raised inside the interpreter ({suspect[0]}); "
                                      f"program error and modelling gap cannot be told apart without a native input - verdict withheld")
                elif internal or native is None:
                    ctx.violate(fam, f"{name}", f"{name} refuted by the solver ({backend}); no failing input for the real function was found",
                                cex or {"solver": info}, False, info)
                else:
                    # the symbolic interpreter reports a violation that the real function does not show on the same input: the interpreter does not
                    # model this code faithfully, so its verdict is withheld (UNDECIDED), never reported as a violation
                    fam.refuted -= 1
                    fam.unknown += 1
                    ctx.undecide(fam, f"{name}: symbolic counterexample does not reproduce on the real function (interpreter not faithful on this code): {str(cex)[:300]}")
            elif status == "error":
                ctx.record(fam, UNKNOWN, {"obligation": name, "error": info[-300:]}, dt)
                ctx.errors.append(f"{name}: {info[-600:]}")
            else:
                ctx.record(fam, UNKNOWN, {"obligation": name, "info": info}, dt)
                ctx.undecide(fam, f"{name}: {info}")
    if canaries["failed"] and not ctx.violations and not ctx.errors:
        raise core.CheckerError("canary not refuted (the VC generator would accept a false postcondition): " + "; ".join(canaries["failed"][:3]))
    ctx.extra.setdefault("sym_phase_wall_s", {})[label or f"phase{len(ctx.extra.get('sym_phase_wall_s', {}))}"] = round(time.time() - t0, 2)


PYVC_ASSUMPTIONS = [
    "pyvc encodes: CPython evaluation order, short-circuit and/or, name scoping, in-place augmented assignment on subscripts; "
    "unbounded Python ints; numpy int8 arithmetic as mathematical integers with a static range side obligation on matrix products",
    "pyvc models of numpy on symbolic arrays (zeros/eye/identity/array/concatenate/block/any/all/sum/array_equal, @, elementwise "
    "^ & | + * % == !=, .T .copy .astype .reshape .transpose .fill, basic/fancy indexing) are assumed faithful; they are exercised "
    "on every run by canaries and by the differential self-test (interpreter vs CPython on random concrete inputs)",
    "copy.deepcopy(array) = array.copy(); itertools.product enumerates all tuples once (assumed stdlib contracts)",
    "zip/map/filter/enumerate/reversed/generator expressions are one-shot iterator objects whose elements are computed eagerly; they may be consumed once, under the path "
    "condition they were created under; closures are checked for late binding at every call; elementwise arithmetic on fixed-width integer arrays is refused when a result "
    "could leave the dtype's range; sums of two symbolic booleans are refused (Python int vs numpy logical semantics); numpy SCALAR arithmetic on elements read from "
    "fixed-width arrays is modelled as mathematical integers (unchecked)",
    "termination is not proved beyond the loop unwinding assertions",
]
PYVC_TRUST = ["pyvc symbolic interpreter + VC generator (hv/pyvc)", "ANF normal form back end (hv/pyvc/expr.py)", "z3 5.1 (python API)", "cvc5 1.0.3 (/usr/bin/cvc5) on z3 'unknown'"]


def written_names(module_tree):
    """names of module-level objects that the module's own code writes to: subscript/attribute stores, del, augmented assignment, mutating method calls, `global`"""
    import ast
    MUT = {"append", "extend", "insert", "pop", "remove", "clear", "sort", "reverse", "update", "setdefault", "popitem", "add", "discard", "fill", "__setitem__", "__delitem__"}
    out = set()
    for node in ast.walk(module_tree):
        if isinstance(node, (ast.Subscript, ast.Attribute)) and isinstance(node.ctx, (ast.Store, ast.Del)):
            base = node.value
            while isinstance(base, (ast.Subscript, ast.Attribute)):
                base = base.value
            if isinstance(base, ast.Name):
                out.add(base.id)
        if isinstance(node, ast.AugAssign) and isinstance(node.target, ast.Name):
            out.add(node.target.id)
        if isinstance(node, ast.Call) and isinstance(node.func, ast.Attribute) and node.func.attr in MUT:
            base = node.func.value
            while isinstance(base, (ast.Subscript, ast.Attribute)):
                base = base.value
            if isinstance(base, ast.Name):
                out.add(base.id)
        if isinstance(node, ast.Global):
            out.update(node.names)
    return out


def purity(ctx, fns, family_name, allow=()):
    """Frame obligation on the real AST: the functions under contract neither read nor write module-level MUTABLE state (their result is a function of their
    arguments).  A global name they load must resolve to a module, function, class, immutable constant, or to a container / object that the module's own code never
    writes to (a constant lookup table; listed in the evidence)."""
    import ast, inspect, textwrap, types, sys
    import numpy as np
    fam = ctx.family(family_name, core.GROUND, "ast", "functions under contract use no module-level state that is written anywhere in their module, and no global statements")
    fam.exhaustive = True
    immut = (int, float, complex, str, bytes, bool, type(None), tuple, frozenset, types.ModuleType, types.FunctionType, types.BuiltinFunctionType, type, np.dtype)
    written_cache = {}
    constants = ctx.extra.setdefault("module_level_constant_objects_read", [])
    for fn in fns:
        f = getattr(fn, "__func__", fn)
        try:
            tree = ast.parse(textwrap.dedent(inspect.getsource(f)))
            mod = sys.modules[f.__module__]
            if f.__module__ not in written_cache:
                written_cache[f.__module__] = written_names(ast.parse(inspect.getsource(mod)))
            written = written_cache[f.__module__]
        except Exception as e:
            ctx.record(fam, core.UNKNOWN)
            ctx.undecide(fam, f"cannot read source of {f}: {e}")
            continue
        bad = []
        local_names = {a.arg for a in ast.walk(tree) if isinstance(a, ast.arg)} | {n.id for n in ast.walk(tree) if isinstance(n, ast.Name) and isinstance(n.ctx, ast.Store)}
        for node in ast.walk(tree):
            if isinstance(node, ast.Global):
                bad.append("global " + ",".join(node.names))
            if isinstance(node, ast.Name) and isinstance(node.ctx, ast.Load) and node.id in f.__globals__ and node.id not in allow and node.id not in local_names:
                v = f.__globals__[node.id]
                if isinstance(v, immut) or hasattr(v, "__origin__") or type(v).__module__ == "typing":
                    continue
                if node.id in written:
                    bad.append(f"{node.id} ({type(v).__name__}, written in the module)")
                else:
                    tag = f"{f.__module__}.{node.id} ({type(v).__name__})"
                    if tag not in constants:
                        constants.append(tag)
        ok = not bad
        strict = os.environ.get("HV_PURITY_POLICY", "undecided") == "violation"
        ctx.record(fam, core.PROVED if ok else (core.REFUTED if strict else core.UNKNOWN), {"function": f.__qualname__})
        if not ok and not strict:
            # a CORRECT memoisation breaks no property: the static argument 'result is a function of the arguments' is withdrawn (UNDECIDED) and the
            # behavioural history families (cold/warm, colliding keys, edited results) decide whether results really depend on the call history
            ctx.undecide(fam, f"{f.__module__}.{f.__qualname__} reads module-level state that the module writes: {sorted(set(bad))} - the per-call proofs, which treat it as a "
                              "function of its arguments, are withdrawn; the call-history families decide")
        elif not ok:
            ctx.violate(fam, f"purity:{f.__module__}.{f.__qualname__}:{sorted(set(bad))}",
                        f"{f.__module__}.{f.__qualname__} depends on module-level mutable state: {sorted(set(bad))} - its result is no longer a function of its arguments",
                        {"function": f.__qualname__, "state": sorted(set(bad))}, has_input=False)
