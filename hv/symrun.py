"""Runs SYM tasks (vc.Case or custom callables) in the process pool and books the records into the Ctx."""
from __future__ import annotations
import re, time
from . import core
from .core import SYM, PROVED, REFUTED, UNKNOWN
from .pyvc import vc


def family_of(pid, name):
    """'rref[3x3]:kernel.fwd.row2' -> 'C18.rref.kernel.fwd'"""
    base = re.sub(r"\[[^\]]*\]", "", name)
    base = base.replace(":", ".")
    base = re.sub(r"\.row\d+$", "", base)
    base = re.sub(r"\d+$", "", base) if base.endswith(tuple("0123456789")) and ".arg" not in base else base
    return f"{pid}.{base}"


def _run_task(t):
    """a task that crashes is an 'error' record (checker crash for that obligation), never a violation"""
    import traceback
    try:
        if isinstance(t, vc.Case):
            return vc.run_case(t)
        return t()
    except Exception as e:
        from .pyvc.sym import Unsupported
        name = getattr(t, "name", None) or getattr(t, "__name__", "task")
        if isinstance(e, (Unsupported, NameError)):
            return [(f"{name}:interp", "unknown", "pyvc", 0.0, f"unsupported / structure drift: {type(e).__name__}: {e}", None, None)], {}
        return [(f"{name}:interp", "error", "pyvc", 0.0, traceback.format_exc()[-1200:], None, None)], {}


def run(ctx: core.Ctx, tasks, procs=None, label=""):
    """tasks: list of vc.Case / zero-arg callables returning (records, stats).  Books everything into ctx."""
    t0 = time.time()
    results = core.pmap(_run_task, tasks, chunks=1, procs=procs)
    canaries = ctx.selfcheck.setdefault("canaries", {"refuted_and_replayed": 0, "failed": []})
    interp_stats = ctx.extra.setdefault("interpreter", {"cases": 0, "statements_interpreted": 0, "feasibility_queries": 0, "interp_time_s": 0.0})
    for t, (recs, stats) in zip(tasks, results):
        if stats:
            interp_stats["cases"] += 1
            interp_stats["statements_interpreted"] += stats.get("stmts", 0)
            interp_stats["feasibility_queries"] += stats.get("feasibility_queries", 0)
            interp_stats["interp_time_s"] = round(interp_stats["interp_time_s"] + stats.get("interp_s", stats.get("t", 0.0)), 3)
            c = stats.get("canary")
            if c is not None:
                if c == "refuted+replayed":
                    canaries["refuted_and_replayed"] += 1
                else:
                    canaries["failed"].append(f"{getattr(t, 'name', '?')}: {c}")
        for name, status, backend, dt, info, cex, native in recs:
            fam = ctx.family(family_of(ctx.pid, name), SYM, backend or "pyvc")
            if backend and backend not in fam.backend.split("+"):
                fam.backend = fam.backend + "+" + backend
            fam.exhaustive = True
            if status == "proved":
                ctx.record(fam, PROVED, {"obligation": name, "backend": backend, "time_s": dt}, dt)
            elif status == "refuted":
                ctx.record(fam, REFUTED, {"obligation": name, "backend": backend}, dt)
                internal = cex is None or "loop_state" in (cex or {}) or name.split(":")[-1].startswith("side.")
                if native is True:
                    ctx.violate(fam, f"{name}", f"{name} refuted; the counterexample replays on the real function", cex, True, info)
                elif internal or native is None:
                    ctx.violate(fam, f"{name}", f"{name} refuted by the solver ({backend}); no failing input for the real function was found",
                                cex or {"solver": info}, False, info)
                else:
                    raise core.CheckerError(f"{name}: the symbolic interpreter reports a violation that the real function does not show "
                                            f"on the same input (interpreter unsound here): {cex}")
            elif status == "error":
                ctx.record(fam, UNKNOWN, {"obligation": name, "error": info[-300:]}, dt)
                ctx.errors.append(f"{name}: {info[-600:]}")
            else:
                ctx.record(fam, UNKNOWN, {"obligation": name, "info": info}, dt)
                ctx.undecide(fam, f"{name}: {info}")
    if canaries["failed"] and not ctx.violations and not ctx.errors:
        raise core.CheckerError("canary not refuted (the VC generator would accept a false postcondition): " + "; ".join(canaries["failed"][:3]))
    ctx.extra.setdefault("sym_phase_wall_s", {})[label or f"phase{len(ctx.extra.get('sym_phase_wall_s', {}))}"] = round(time.time() - t0, 2)


PYVC_ASSUMPTIONS = [
    "pyvc encodes: CPython evaluation order, short-circuit and/or, name scoping, in-place augmented assignment on subscripts; "
    "unbounded Python ints; numpy int8 arithmetic as mathematical integers with a static range side obligation on matrix products",
    "pyvc models of numpy on symbolic arrays (zeros/eye/identity/array/concatenate/block/any/all/sum/array_equal, @, elementwise "
    "^ & | + * % == !=, .T .copy .astype .reshape .transpose .fill, basic/fancy indexing) are assumed faithful; they are exercised "
    "on every run by canaries and by the differential self-test (interpreter vs CPython on random concrete inputs)",
    "copy.deepcopy(array) = array.copy(); itertools.product enumerates all tuples once (assumed stdlib contracts)",
    "termination is not proved beyond the loop unwinding assertions",
]
PYVC_TRUST = ["pyvc symbolic interpreter + VC generator (hv/pyvc)", "ANF normal form back end (hv/pyvc/expr.py)", "z3 5.1 (python API)", "cvc5 1.0.3 (/usr/bin/cvc5) on z3 'unknown'"]


def purity(ctx, fns, family_name, allow=()):
    """Frame obligation on the real AST: the functions under contract neither read nor write module-level MUTABLE state
    (their result is a function of their arguments).  Global names they load must resolve to modules, functions, classes or
    immutable constants."""
    import ast, inspect, textwrap, types, builtins
    import numpy as np
    fam = ctx.family(family_name, core.GROUND, "ast", "functions under contract use no module-level mutable state and no global/nonlocal statements")
    fam.exhaustive = True
    immut = (int, float, complex, str, bytes, bool, type(None), tuple, frozenset, types.ModuleType, types.FunctionType, types.BuiltinFunctionType, type, np.dtype)
    for fn in fns:
        f = getattr(fn, "__func__", fn)
        try:
            tree = ast.parse(textwrap.dedent(inspect.getsource(f)))
        except Exception as e:
            ctx.record(fam, core.UNKNOWN)
            ctx.undecide(fam, f"cannot read source of {f}: {e}")
            continue
        bad = []
        for node in ast.walk(tree):
            if isinstance(node, (ast.Global, ast.Nonlocal)) and not isinstance(node, ast.Nonlocal):
                bad.append("global " + ",".join(node.names))
            if isinstance(node, ast.Name) and node.id in f.__globals__ and node.id not in allow:
                v = f.__globals__[node.id]
                if not isinstance(v, immut) and not (hasattr(v, "__origin__") or type(v).__module__ == "typing"):
                    bad.append(f"{node.id} ({type(v).__name__})")
        ok = not bad
        ctx.record(fam, core.PROVED if ok else core.REFUTED, {"function": f.__qualname__})
        if not ok:
            ctx.violate(fam, f"purity:{f.__module__}.{f.__qualname__}:{sorted(set(bad))}",
                        f"{f.__module__}.{f.__qualname__} depends on module-level mutable state: {sorted(set(bad))} - its result is no longer a function of its arguments",
                        {"function": f.__qualname__, "state": sorted(set(bad))}, has_input=False)
