"""Tomography contracts (C10, C11, C12).

Technique: the real fitter code (CircuitResult.__init__, _compute_expectation_value, *Fitter.expectation_values) has concrete
control flow once the circuit and the measured-qubit list are fixed; only the COUNTS are data.  It is therefore executed by CPython
itself on symbolic count objects (`Lin`: exact linear forms over one symbol per measurement outcome; any attempt to branch on one
raises).  Each returned expectation value is an exact quotient of two linear forms, compared by normal form with the contract

        value(P) = sigma * sum_b (-1)^{s . b|q} c_b  /  sum_b c_b          where  U P U^dagger = sigma * Z^s  (oracle tableau)

Both sides are linear in the outcome distribution, hence in rho (M7), so equality of the coefficient vectors is equality for EVERY
state - the continuum is covered without sampling states.
"""
from __future__ import annotations
from fractions import Fraction
import itertools
import numpy as np
from .oracle import pauli as P
from . import core, adapt


class SymbolicBranch(Exception):
    pass


class Lin:
    """exact linear form  const + sum coef[v] * v  over outcome-count symbols.  Immutable; sums are kept as a lazy tree (O(1) per operation) and
    normalised once, when the form is compared."""
    __slots__ = ("_c", "_k", "_terms")
    __array_priority__ = 1000

    def __init__(self, coefs=None, const=0, _terms=None):
        if _terms is not None:
            self._terms, self._c, self._k = _terms, None, None
        else:
            self._terms = None
            self._c = {v: x for v, x in (coefs or {}).items() if x != 0}
            self._k = const

    def _normal(self):
        if self._c is None:
            acc, k = {}, 0
            stack = [(1, self)]
            while stack:
                f, node = stack.pop()
                if node._terms is None or node._c is not None:
                    for v, x in node._c.items():
                        acc[v] = acc.get(v, 0) + f * x
                    k += f * node._k
                else:
                    for g, child in node._terms:
                        stack.append((f * g, child))
            self._c = {v: x for v, x in acc.items() if x != 0}
            self._k = k
        return self

    @property
    def c(self):
        return self._normal()._c

    @property
    def k(self):
        return self._normal()._k

    @staticmethod
    def sym(name):
        return Lin({name: 1})

    @staticmethod
    def of(v):
        if isinstance(v, Lin):
            return v
        if isinstance(v, (int, Fraction, np.integer)):
            return Lin({}, int(v) if not isinstance(v, Fraction) else v)
        if isinstance(v, float) and v == int(v):
            return Lin({}, int(v))
        raise TypeError(f"Lin.of({type(v).__name__})")

    def __add__(self, o):
        return Lin(_terms=((1, self), (1, Lin.of(o))))
    __radd__ = __add__

    def __neg__(self):
        return Lin(_terms=((-1, self),))

    def __sub__(self, o):
        return Lin(_terms=((1, self), (-1, Lin.of(o))))

    def __rsub__(self, o):
        return Lin(_terms=((1, Lin.of(o)), (-1, self)))

    def __mul__(self, o):
        if isinstance(o, (int, Fraction, np.integer)) or (isinstance(o, float) and o == int(o)):
            f = int(o) if not isinstance(o, Fraction) else o
            return Lin(_terms=((f, self),))
        return NotImplemented
    __rmul__ = __mul__

    def __truediv__(self, o):
        if isinstance(o, Lin):
            return Frac(self, o)
        return self * Fraction(1, int(o))

    def __bool__(self):
        raise SymbolicBranch("branch on a symbolic count")

    def __eq__(self, o):
        if isinstance(o, Lin):
            return self.c == o.c and self.k == o.k
        return NotImplemented

    def __hash__(self):
        return hash((tuple(sorted(self.c.items())), self.k))

    def __repr__(self):
        return "Lin(" + " + ".join(f"{x}*{v}" for v, x in sorted(self.c.items())) + (f" + {self.k}" if self.k else "") + ")"


class Frac:
    """num / den with linear forms"""
    __slots__ = ("num", "den")
    __array_priority__ = 1000

    def __init__(self, num, den):
        self.num, self.den = Lin.of(num), Lin.of(den)

    def __mul__(self, o):
        if isinstance(o, (int, np.integer)) or (isinstance(o, float) and o == int(o)):
            return Frac(self.num * int(o), self.den)
        return NotImplemented
    __rmul__ = __mul__

    def __neg__(self):
        return Frac(-self.num, self.den)

    def __bool__(self):
        raise SymbolicBranch("branch on a symbolic expectation value")

    def __repr__(self):
        return f"Frac({self.num} / {self.den})"


class FakeResult:
    """duck-typed qiskit Result"""

    def __init__(self, counts):
        self._c = counts

    def get_counts(self):
        return self._c


def outcome_keys(N, spaced=False):
    """all N-bit outcome strings in qiskit's little-endian convention (rightmost char = qubit 0)"""
    ks = []
    for b in range(1 << N):
        s = format(b, f"0{N}b")
        if spaced and N > 2:
            s = s[:1] + " " + s[1:]
        ks.append((b, s))
    return ks


def symbolic_counts(N, tag, spaced=False):
    return {s: Lin.sym(f"{tag}{b}") for b, s in outcome_keys(N, spaced)}


def expected_form(N, qubits, s_mask, sigma, tag):
    """sigma * sum_b (-1)^{popcount(s & b|q)} c_b   and   sum_b c_b   as Lin"""
    num, den = {}, {}
    for b in range(1 << N):
        if qubits is None:
            r = b
        else:
            r = 0
            for k, q in enumerate(qubits):
                r |= ((b >> q) & 1) << k
        sgn = -1 if P.popcount(s_mask & r) & 1 else 1
        num[f"{tag}{b}"] = sgn * (-1 if sigma else 1)
        den[f"{tag}{b}"] = 1
    return Lin(num), Lin(den)


def pauli_to_xz(p):
    """qiskit Pauli -> (x mask, z mask, phase) little-endian"""
    x = sum(1 << i for i, b in enumerate(p.x) if b)
    z = sum(1 << i for i, b in enumerate(p.z) if b)
    return x, z, int(p.phase)


def check_fitter_dict(values, readout_gates, m, N, qubits, tag, full):
    """Compare the dictionary returned by the real fitter (symbolic counts) with the contract. Returns list of problems (strings)."""
    problems = []
    inv = P.inverse_gates(readout_gates)
    want = {}
    for s in range(1, 1 << m):
        x, z, sg = P.conj_circuit((0, s, 0), inv)          # P = U^dagger Z^s U  (signed)
        # value contract: Tr(rho P_unsigned) = sigma * sum (-1)^{s.b} p_b  with  U P_unsigned U^dagger = sigma Z^s
        sigma = sg                                          # U (sg * P_unsigned) U^dagger = Z^s  =>  U P_unsigned U^dagger = sg * Z^s  (sg = +-1)
        if qubits is not None and full:
            X = Z = 0
            for k, q in enumerate(qubits):
                X |= ((x >> k) & 1) << q
                Z |= ((z >> k) & 1) << q
            keyxz = (X, Z)
        else:
            keyxz = (x, z)
        want[keyxz] = (s, sigma)
    klen = N if (qubits is not None and full) else m
    got = {}
    for pk, v in values.items():
        x, z, ph = pauli_to_xz(pk)
        if len(pk) != klen:
            problems.append(f"key {pk} has {len(pk)} qubits, expected {klen}")
            continue
        if ph != 0:
            problems.append(f"key {pk} carries a phase")
        if (x, z) in got:
            problems.append(f"duplicate key {pk}")
        got[(x, z)] = v
    if (0, 0) not in got:
        problems.append("identity entry missing")
    else:
        iv = got[(0, 0)]
        if not (isinstance(iv, (int, float)) and iv == 1):
            problems.append(f"identity value {iv!r} != 1")
    if len(values) != (1 << m):
        problems.append(f"{len(values)} entries, expected {1 << m}")
    for keyxz, (s, sigma) in want.items():
        v = got.get(keyxz)
        if v is None:
            problems.append(f"Pauli {P.to_label(klen, keyxz + (0,), False)} (pull-back of Z^{s:b}) missing")
            continue
        if not isinstance(v, Frac):
            problems.append(f"value for {P.to_label(klen, keyxz + (0,), False)} is not a quotient of count sums: {v!r}")
            continue
        num, den = expected_form(N, qubits, s, sigma, tag)
        if not (v.num == num and v.den == den):
            if v.num == -num and v.den == den:
                problems.append(f"value for {P.to_label(klen, keyxz + (0,), False)} has the wrong SIGN")
            else:
                problems.append(f"value for {P.to_label(klen, keyxz + (0,), False)} is not sigma*sum(-1)^(s.b) c_b / sum c_b (s={s:b})")
    extra = set(got) - set(want) - {(0, 0)}
    if extra:
        problems.append(f"unexpected keys {[P.to_label(klen, k + (0,), False) for k in list(extra)[:3]]}")
    return problems


# ---------------------------------------------------------------------------------------------------------------------------------
# Concrete count data.  The symbolic run above has every outcome key present with a generic value; real results OMIT outcomes that never
# occurred and may be deterministic.  The same value contract is therefore also evaluated on concrete sparse / dense count dictionaries
# (GROUND), and it is the fallback when the code under contract does not treat counts as opaque numbers (e.g. hands them to numpy).

def key_of(b, N, spaced=False):
    s = format(b, f"0{N}b")
    return s[:1] + " " + s[1:] if spaced and N > 2 else s


def concrete_sets(N, ncirc, rnd, all_deltas, spaced_odd=False, light=False):
    """[(tag, [counts dict per circuit])]: single-outcome (deterministic) results, two-outcome results, dense integer counts, dense float probabilities"""
    size = 1 << N
    sets = []
    if all_deltas:
        bs = list(range(size))
    elif light:
        bs = list(dict.fromkeys([0, size - 1, rnd.randrange(1, size)]))
    else:
        bs = list(dict.fromkeys([0, 1, size - 1, size >> 1] + [rnd.randrange(size) for _ in range(4)]))
    for b in bs:
        sets.append((f"deterministic outcome {b:0{N}b} (shifted by the circuit index)",
                     [{key_of((b + 5 * j) % size, N, spaced_odd and j % 2 == 1): 1000} for j in range(ncirc)]))
    for _ in range(1 if light else 2):
        cs = []
        for j in range(ncirc):
            b1, b2 = rnd.randrange(size), rnd.randrange(size)
            d = {key_of(b1, N, spaced_odd and j % 2 == 1): 3}
            d[key_of(b2, N, spaced_odd and j % 2 == 1)] = d.get(key_of(b2, N, spaced_odd and j % 2 == 1), 0) + 1
            cs.append(d)
        sets.append(("two-outcome results", cs))
    sets.append(("dense integer counts", [{key_of(b, N, spaced_odd and j % 2 == 1): rnd.randrange(1, 60) for b in range(size)} for j in range(ncirc)]))
    fl = []
    for j in range(ncirc):
        w = [rnd.random() for _ in range(size)]
        t = sum(w)
        fl.append({key_of(b, N, spaced_odd and j % 2 == 1): w[b] / t for b in range(size)})
    sets.append(("dense float probabilities", fl))
    return sets


def dense_concrete(N, ncirc, rnd, spaced_odd=False):
    return [{key_of(b, N, spaced_odd and j % 2 == 1): rnd.randrange(1, 60) for b in range(1 << N)} for j in range(ncirc)]


def expected_concrete(readout_gates, m, N, qubits, counts, full):
    """{(x, z): value} of the contract  sigma * sum_b (-1)^{s.b|q} c_b / sum_b c_b  for all s != 0, key layout as in check_fitter_dict"""
    inv = P.inverse_gates(readout_gates)
    parsed = [(int(k.replace(" ", ""), 2), c) for k, c in counts.items()]
    tot = sum(c for _, c in parsed)
    if qubits is not None:
        parsed = [(sum(((b >> q) & 1) << k for k, q in enumerate(qubits)), c) for b, c in parsed]
    out = {}
    for s in range(1, 1 << m):
        x, z, sg = P.conj_circuit((0, s, 0), inv)
        acc = 0
        for r, c in parsed:
            acc += -c if P.popcount(s & r) & 1 else c
        if qubits is not None and full:
            X = Z = 0
            for k, q in enumerate(qubits):
                X |= ((x >> k) & 1) << q
                Z |= ((z >> k) & 1) << q
            x, z = X, Z
        out[(x, z)] = (-acc if sg else acc) / tot
    return out


def check_concrete(values, specs, counts_list, N):
    """values: dict returned by the real fitter on concrete counts; specs: per circuit (readout_gates, m, qubits, full). Returns problems."""
    want = {}
    klen = None
    for (ro, m, qubits, full), counts in zip(specs, counts_list):
        want.update(expected_concrete(ro, m, N, qubits, counts, full))
        klen = N if (qubits is not None and full) else m
    problems, got = [], {}
    for pk, v in values.items():
        x, z, ph = pauli_to_xz(pk)
        if len(pk) != klen:
            problems.append(f"key {pk} has {len(pk)} qubits, expected {klen}")
            continue
        if ph != 0:
            problems.append(f"key {pk} carries a phase")
        got[(x, z)] = v
    if (0, 0) not in got or abs(got[(0, 0)] - 1) > 1e-12:
        problems.append(f"identity entry missing or != 1 ({got.get((0, 0))!r})")
    if len(values) != len(want) + 1:
        problems.append(f"{len(values)} entries, expected {len(want) + 1}")
    for k, w in want.items():
        v = got.get(k)
        if v is None:
            problems.append(f"Pauli {P.to_label(klen, k + (0,), False)} missing")
        elif abs(complex(v) - w) > 1e-9:
            problems.append(f"value for {P.to_label(klen, k + (0,), False)} is {v!r}, contract {w!r}" + (" (wrong SIGN)" if abs(complex(v) + w) < 1e-9 else ""))
        if len(problems) > 4:
            break
    return problems


def symbolic_or_withdraw(symbolic_fn, concrete_fn):
    """symbolic_fn() runs the real code on symbolic counts and returns a list of problems.  If the code cannot be executed on them (it branches on a count,
    or passes the counts to numpy/float - any exception), the SAME call is repeated on dense concrete counts by concrete_fn():
        it raises there too  -> (False, [...])  a genuine failure with a concrete input
        it runs              -> (None, [...])   the symbolic (all-distributions) argument is withdrawn: UNDECIDED, never a violation"""
    try:
        return (lambda p: (not p, p))(symbolic_fn())
    except Exception as e:          # includes SymbolicBranch
        why = f"{type(e).__name__}: {e}"
    try:
        concrete_fn()
    except Exception as e2:
        return False, [f"fitter raised {type(e2).__name__}: {e2} on dense concrete counts (and {why} on symbolic counts)"]
    return None, [f"the code does not treat counts as opaque numbers ({why}); the all-distributions argument by symbolic counts is withdrawn"]


# ---------------------------------------------------------------------------------------------------------------------------------
# Representation of the PREPARATION circuit (round 6): the tomography / stabilizer-measurement APIs take an arbitrary preparation circuit.  The main families call them
# with an empty QuantumCircuit(N); the contract below is relational and closes the gap: for every representation of a preparation circuit (gates, user metadata,
# metadata None, a circuit that DESCENDS from an earlier library measurement / tomography circuit and therefore carries that circuit's metadata),
#   (a) the produced circuit is  prep ; R ; measure  where R is exactly the readout part produced for the empty preparation circuit,
#   (b) the readout information the fitter decodes with (metadata) names that same R, the same measured qubits and register size, and
#   (c) the fitter's expectation values on the same result object are identical to those of the empty-preparation circuits
# - i.e. fitter output is a function of (counts, readout part, measured qubits) and never of the preparation circuit's representation.  With the main families
# (value contract for the empty preparation circuit, all outcome distributions) this gives the value contract for these preparation circuits.
def _ro_info(c):
    md = c.metadata or {}
    ri = md.get("readout info")
    if ri is None:
        return None
    q = getattr(ri, "qubits", None)
    return (adapt.gates_of(ri.circuit), None if q is None else tuple(int(x) for x in q), int(ri.total_num_qubits))


def _same_values(a, b):
    if set(a) != set(b):
        return False
    for k in a:
        x, y = a[k], b[k]
        try:
            if abs(complex(x) - complex(y)) > 1e-12:
                return False
        except Exception:
            if x != y:
                return False
    return True


def prep_variant_job(args):
    """[(family suffix, ok, key, what, replay)] for one (pid, n, conn, seed, measured?)"""
    pid, n, conn, seed, with_list = args
    import random
    from qiskit import QuantumCircuit
    import htstabilizer.tomography as T
    from .oracle import graphs as G, pauli as Pm
    from . import e2e
    rnd = random.Random(seed)
    N = n + 1 if with_list else n
    ql = None
    if with_list:
        ql = list(range(N))
        rnd.shuffle(ql)
        ql = ql[:n]

    def member():
        orb = rnd.randrange(len(G.orbit_table(n)[1]))
        gid = G.orbit_table(n)[1][orb]
        rows = [(x, z) for x, z, _ in G.graph_state_gens(n, G.adj_from_id(n, gid))]
        rows = G.apply_layer_unsigned(n, rows, [rnd.randrange(6) for _ in range(n)])
        return e2e.mk_stabilizer(n, [(x, z, rnd.randrange(2)) for x, z in rows])
    stA, stB = member(), member()

    def gates(N_):
        qc = QuantumCircuit(N_)
        qc.h(0)
        qc.cx(0, N_ - 1)
        qc.s(N_ - 1)
        return qc
    kw = {} if ql is None else {"measured_qubits": list(ql)}
    variants = []
    variants.append(("gates", gates(N)))
    v = gates(N)
    v.metadata = {"experiment": "x", "shots": 5}
    variants.append(("user metadata", v))
    v = gates(N)
    try:
        v.metadata = None
        variants.append(("metadata None", v))
    except Exception:
        pass
    anc = T.stabilizer_measurement_circuit(gates(N), stA, conn, **kw)
    variants.append(("descends from a stabilizer-measurement circuit (remove_final_measurements)", anc.remove_final_measurements(inplace=False)))
    anc2 = T.full_state_tomography_circuits(gates(N), conn, **kw)
    variants.append(("descends from tomography circuit 1 (remove_final_measurements)", anc2[1].remove_final_measurements(inplace=False)))
    variants.append(("descends from the last tomography circuit (copy, measurements kept off)", anc2[-1].remove_final_measurements(inplace=False).copy()))
    out = []
    base_smc = T.stabilizer_measurement_circuit(QuantumCircuit(N), stB, conn, **kw)
    base_tom = T.full_state_tomography_circuits(QuantumCircuit(N), conn, **kw)
    size = 1 << N
    cnt1 = {key_of(rnd.randrange(size), N): 700, key_of(rnd.randrange(size), N): 300}
    cntT = [{key_of(rnd.randrange(size), N): 3, key_of((5 * j + 1) % size, N): 1} for j in range(len(base_tom))]
    for c in cntT + [cnt1]:
        for k in list(c):
            c[k] = c[k]
    full = bool(with_list and seed % 2)
    fkw = {"full_hilbert_space": True} if full else {}

    def fit_smc(c):
        return T.StabilizerMeasurementFitter(FakeResult(dict(cnt1)), c).expectation_values(**fkw)

    def fit_tom(cs):
        return T.FullStateTomographyFitter(FakeResult([dict(x) for x in cntT]), cs).expectation_values(**fkw)
    want_smc, want_tom = fit_smc(base_smc), fit_tom(base_tom)
    nz = lambda c: [g for g in adapt.gates_of(c) if g[0] not in Pm.IGNORED]
    for tag, prep in variants:
        rp = {"n": n, "connectivity": conn, "seed": seed, "measured_qubits": ql, "variant": tag, "job": [pid, n, conn, seed, with_list]}
        pg = nz(prep)
        if pid in ("C11", "C12"):
            try:
                c = T.stabilizer_measurement_circuit(prep, stB, conn, **kw)
                ok_a = nz(c) == pg + nz(base_smc)
                ok_b = _ro_info(c) == _ro_info(base_smc)
                ok_c = _same_values(fit_smc(c), want_smc)
                why = f"assembly={ok_a} readout-info={ok_b} fitter-values={ok_c}"
            except Exception as e:
                ok_a = ok_b = ok_c = False
                why = f"raised {type(e).__name__}: {e}"
            out.append((f"{pid}.prep_representation.stabilizer_measurement", ok_a and ok_b and ok_c, f"prepvar:smc:{n}:{conn}:{with_list}:{tag}",
                        f"stabilizer measurement on {n}-{conn} (measured qubits {ql}) with a preparation circuit that {tag}: {why} - not the circuit / readout info / values obtained "
                        "for the same stabilizer with an empty preparation circuit", rp))
        if pid in ("C10", "C11"):
            try:
                cs = T.full_state_tomography_circuits(prep, conn, **kw)
                ok_a = len(cs) == len(base_tom) and all(nz(c) == pg + nz(b) for c, b in zip(cs, base_tom))
                ok_b = [_ro_info(c) for c in cs] == [_ro_info(b) for b in base_tom]
                ok_c = _same_values(fit_tom(cs), want_tom)
                why = f"assembly={ok_a} readout-info={ok_b} fitter-values={ok_c}"
            except Exception as e:
                ok_a = ok_b = ok_c = False
                why = f"raised {type(e).__name__}: {e}"
            out.append((f"{pid}.prep_representation.full_tomography", ok_a and ok_b and ok_c, f"prepvar:tom:{n}:{conn}:{with_list}:{tag}",
                        f"full-state tomography on {n}-{conn} (measured qubits {ql}) with a preparation circuit that {tag}: {why} - not the circuits / readout info / values obtained "
                        "with an empty preparation circuit", rp))
    return out


def prep_variants(ctx, pid, with_lists):
    """books the prep_representation families into ctx; with_lists: also with measured_qubits on an (n+1)-qubit register"""
    import random
    from .oracle import docs
    rnd = random.Random(ctx.seed + 77)
    jobs = []
    for n, conn in docs.ADVERTISED:
        if n == 6 and ctx.quick and conn not in ("all", "linear", "ladder"):
            continue
        if n == 6 and pid == "C10" and ctx.quick:
            continue
        for wl in ((False, True) if with_lists else (False,)):
            if wl and n == 6 and ctx.quick:
                continue
            jobs.append((pid, n, conn, rnd.randrange(1 << 30), wl))
    for res in core.pmap(prep_variant_job, jobs, chunks=1):
        for famname, ok, key, what, rp in res:
            fam = ctx.family(famname, core.BOUNDED, "native (relational)", "circuit, readout info and fitter values do not depend on the representation of the preparation circuit: "
                             "gates, user metadata, metadata None, circuits descending from earlier library measurement / tomography circuits")
            fam.exhaustive = False
            fam.domain = "advertised configurations (6-qubit ones reduced in the quick tier) x six preparation-circuit representations; one seeded stabilizer / result each"
            ctx.record(fam, core.PROVED if ok else core.REFUTED, rp if fam.total < 2 else None)
            if not ok:
                ctx.violate(fam, key, what, rp)


def replay_prep_variant(inp):
    bad = [r for r in prep_variant_job(tuple(inp["job"])) if not r[1] and inp["variant"] in r[2]]
    for r in bad:
        print("REPRODUCED:", r[3])
    return 1 if bad else 0
