"""Tomography contracts (C10, C11, C12).

Technique: the real fitter code (CircuitResult.__init__, _compute_expectation_value, *Fitter.expectation_values) has concrete
control flow once the circuit and the measured-qubit list are fixed; only the COUNTS are data.  It is therefore executed by CPython
itself on symbolic count objects (`Lin`: exact linear forms over one symbol per measurement outcome; any attempt to branch on one
raises).  Each returned expectation value is an exact quotient of two linear forms, compared by normal form with the contract

        value(P) = sigma * sum_b (-1)^{s . b|q} c_b  /  sum_b c_b          where  U P U^dagger = sigma * Z^s  (oracle tableau)

Both sides are linear in the outcome distribution, hence in rho (M7), so equality of the coefficient vectors is equality for EVERY
state - the continuum is covered without sampling states.
"""
from __future__ import annotations
from fractions import Fraction
import itertools
import numpy as np
from .oracle import pauli as P


class SymbolicBranch(Exception):
    pass


class Lin:
    """exact linear form  const + sum coef[v] * v  over outcome-count symbols.  Immutable; sums are kept as a lazy tree (O(1) per operation) and
    normalised once, when the form is compared."""
    __slots__ = ("_c", "_k", "_terms")
    __array_priority__ = 1000

    def __init__(self, coefs=None, const=0, _terms=None):
        if _terms is not None:
            self._terms, self._c, self._k = _terms, None, None
        else:
            self._terms = None
            self._c = {v: x for v, x in (coefs or {}).items() if x != 0}
            self._k = const

    def _normal(self):
        if self._c is None:
            acc, k = {}, 0
            stack = [(1, self)]
            while stack:
                f, node = stack.pop()
                if node._terms is None or node._c is not None:
                    for v, x in node._c.items():
                        acc[v] = acc.get(v, 0) + f * x
                    k += f * node._k
                else:
                    for g, child in node._terms:
                        stack.append((f * g, child))
            self._c = {v: x for v, x in acc.items() if x != 0}
            self._k = k
        return self

    @property
    def c(self):
        return self._normal()._c

    @property
    def k(self):
        return self._normal()._k

    @staticmethod
    def sym(name):
        return Lin({name: 1})

    @staticmethod
    def of(v):
        if isinstance(v, Lin):
            return v
        if isinstance(v, (int, Fraction, np.integer)):
            return Lin({}, int(v) if not isinstance(v, Fraction) else v)
        if isinstance(v, float) and v == int(v):
            return Lin({}, int(v))
        raise TypeError(f"Lin.of({type(v).__name__})")

    def __add__(self, o):
        return Lin(_terms=((1, self), (1, Lin.of(o))))
    __radd__ = __add__

    def __neg__(self):
        return Lin(_terms=((-1, self),))

    def __sub__(self, o):
        return Lin(_terms=((1, self), (-1, Lin.of(o))))

    def __rsub__(self, o):
        return Lin(_terms=((1, Lin.of(o)), (-1, self)))

    def __mul__(self, o):
        if isinstance(o, (int, Fraction, np.integer)) or (isinstance(o, float) and o == int(o)):
            f = int(o) if not isinstance(o, Fraction) else o
            return Lin(_terms=((f, self),))
        return NotImplemented
    __rmul__ = __mul__

    def __truediv__(self, o):
        if isinstance(o, Lin):
            return Frac(self, o)
        return self * Fraction(1, int(o))

    def __bool__(self):
        raise SymbolicBranch("branch on a symbolic count")

    def __eq__(self, o):
        if isinstance(o, Lin):
            return self.c == o.c and self.k == o.k
        return NotImplemented

    def __hash__(self):
        return hash((tuple(sorted(self.c.items())), self.k))

    def __repr__(self):
        return "Lin(" + " + ".join(f"{x}*{v}" for v, x in sorted(self.c.items())) + (f" + {self.k}" if self.k else "") + ")"


class Frac:
    """num / den with linear forms"""
    __slots__ = ("num", "den")
    __array_priority__ = 1000

    def __init__(self, num, den):
        self.num, self.den = Lin.of(num), Lin.of(den)

    def __mul__(self, o):
        if isinstance(o, (int, np.integer)) or (isinstance(o, float) and o == int(o)):
            return Frac(self.num * int(o), self.den)
        return NotImplemented
    __rmul__ = __mul__

    def __neg__(self):
        return Frac(-self.num, self.den)

    def __bool__(self):
        raise SymbolicBranch("branch on a symbolic expectation value")

    def __repr__(self):
        return f"Frac({self.num} / {self.den})"


class FakeResult:
    """duck-typed qiskit Result"""

    def __init__(self, counts):
        self._c = counts

    def get_counts(self):
        return self._c


def outcome_keys(N, spaced=False):
    """all N-bit outcome strings in qiskit's little-endian convention (rightmost char = qubit 0)"""
    ks = []
    for b in range(1 << N):
        s = format(b, f"0{N}b")
        if spaced and N > 2:
            s = s[:1] + " " + s[1:]
        ks.append((b, s))
    return ks


def symbolic_counts(N, tag, spaced=False):
    return {s: Lin.sym(f"{tag}{b}") for b, s in outcome_keys(N, spaced)}


def expected_form(N, qubits, s_mask, sigma, tag):
    """sigma * sum_b (-1)^{popcount(s & b|q)} c_b   and   sum_b c_b   as Lin"""
    num, den = {}, {}
    for b in range(1 << N):
        if qubits is None:
            r = b
        else:
            r = 0
            for k, q in enumerate(qubits):
                r |= ((b >> q) & 1) << k
        sgn = -1 if P.popcount(s_mask & r) & 1 else 1
        num[f"{tag}{b}"] = sgn * (-1 if sigma else 1)
        den[f"{tag}{b}"] = 1
    return Lin(num), Lin(den)


def pauli_to_xz(p):
    """qiskit Pauli -> (x mask, z mask, phase) little-endian"""
    x = sum(1 << i for i, b in enumerate(p.x) if b)
    z = sum(1 << i for i, b in enumerate(p.z) if b)
    return x, z, int(p.phase)


def check_fitter_dict(values, readout_gates, m, N, qubits, tag, full):
    """Compare the dictionary returned by the real fitter (symbolic counts) with the contract. Returns list of problems (strings)."""
    problems = []
    inv = P.inverse_gates(readout_gates)
    want = {}
    for s in range(1, 1 << m):
        x, z, sg = P.conj_circuit((0, s, 0), inv)          # P = U^dagger Z^s U  (signed)
        # value contract: Tr(rho P_unsigned) = sigma * sum (-1)^{s.b} p_b  with  U P_unsigned U^dagger = sigma Z^s
        sigma = sg                                          # U (sg * P_unsigned) U^dagger = Z^s  =>  U P_unsigned U^dagger = sg * Z^s  (sg = +-1)
        if qubits is not None and full:
            X = Z = 0
            for k, q in enumerate(qubits):
                X |= ((x >> k) & 1) << q
                Z |= ((z >> k) & 1) << q
            keyxz = (X, Z)
        else:
            keyxz = (x, z)
        want[keyxz] = (s, sigma)
    klen = N if (qubits is not None and full) else m
    got = {}
    for pk, v in values.items():
        x, z, ph = pauli_to_xz(pk)
        if len(pk) != klen:
            problems.append(f"key {pk} has {len(pk)} qubits, expected {klen}")
            continue
        if ph != 0:
            problems.append(f"key {pk} carries a phase")
        if (x, z) in got:
            problems.append(f"duplicate key {pk}")
        got[(x, z)] = v
    if (0, 0) not in got:
        problems.append("identity entry missing")
    else:
        iv = got[(0, 0)]
        if not (isinstance(iv, (int, float)) and iv == 1):
            problems.append(f"identity value {iv!r} != 1")
    if len(values) != (1 << m):
        problems.append(f"{len(values)} entries, expected {1 << m}")
    for keyxz, (s, sigma) in want.items():
        v = got.get(keyxz)
        if v is None:
            problems.append(f"Pauli {P.to_label(klen, keyxz + (0,), False)} (pull-back of Z^{s:b}) missing")
            continue
        if not isinstance(v, Frac):
            problems.append(f"value for {P.to_label(klen, keyxz + (0,), False)} is not a quotient of count sums: {v!r}")
            continue
        num, den = expected_form(N, qubits, s, sigma, tag)
        if not (v.num == num and v.den == den):
            if v.num == -num and v.den == den:
                problems.append(f"value for {P.to_label(klen, keyxz + (0,), False)} has the wrong SIGN")
            else:
                problems.append(f"value for {P.to_label(klen, keyxz + (0,), False)} is not sigma*sum(-1)^(s.b) c_b / sum c_b (s={s:b})")
    extra = set(got) - set(want) - {(0, 0)}
    if extra:
        problems.append(f"unexpected keys {[P.to_label(klen, k + (0,), False) for k in list(extra)[:3]]}")
    return problems


# ---------------------------------------------------------------------------------------------------------------------------------
# Concrete count data.  The symbolic run above has every outcome key present with a generic value; real results OMIT outcomes that never
# occurred and may be deterministic.  The same value contract is therefore also evaluated on concrete sparse / dense count dictionaries
# (GROUND), and it is the fallback when the code under contract does not treat counts as opaque numbers (e.g. hands them to numpy).

def key_of(b, N, spaced=False):
    s = format(b, f"0{N}b")
    return s[:1] + " " + s[1:] if spaced and N > 2 else s


def concrete_sets(N, ncirc, rnd, all_deltas, spaced_odd=False, light=False):
    """[(tag, [counts dict per circuit])]: single-outcome (deterministic) results, two-outcome results, dense integer counts, dense float probabilities"""
    size = 1 << N
    sets = []
    if all_deltas:
        bs = list(range(size))
    elif light:
        bs = list(dict.fromkeys([0, size - 1, rnd.randrange(1, size)]))
    else:
        bs = list(dict.fromkeys([0, 1, size - 1, size >> 1] + [rnd.randrange(size) for _ in range(4)]))
    for b in bs:
        sets.append((f"deterministic outcome {b:0{N}b} (shifted by the circuit index)",
                     [{key_of((b + 5 * j) % size, N, spaced_odd and j % 2 == 1): 1000} for j in range(ncirc)]))
    for _ in range(1 if light else 2):
        cs = []
        for j in range(ncirc):
            b1, b2 = rnd.randrange(size), rnd.randrange(size)
            d = {key_of(b1, N, spaced_odd and j % 2 == 1): 3}
            d[key_of(b2, N, spaced_odd and j % 2 == 1)] = d.get(key_of(b2, N, spaced_odd and j % 2 == 1), 0) + 1
            cs.append(d)
        sets.append(("two-outcome results", cs))
    sets.append(("dense integer counts", [{key_of(b, N, spaced_odd and j % 2 == 1): rnd.randrange(1, 60) for b in range(size)} for j in range(ncirc)]))
    fl = []
    for j in range(ncirc):
        w = [rnd.random() for _ in range(size)]
        t = sum(w)
        fl.append({key_of(b, N, spaced_odd and j % 2 == 1): w[b] / t for b in range(size)})
    sets.append(("dense float probabilities", fl))
    return sets


def dense_concrete(N, ncirc, rnd, spaced_odd=False):
    return [{key_of(b, N, spaced_odd and j % 2 == 1): rnd.randrange(1, 60) for b in range(1 << N)} for j in range(ncirc)]


def expected_concrete(readout_gates, m, N, qubits, counts, full):
    """{(x, z): value} of the contract  sigma * sum_b (-1)^{s.b|q} c_b / sum_b c_b  for all s != 0, key layout as in check_fitter_dict"""
    inv = P.inverse_gates(readout_gates)
    parsed = [(int(k.replace(" ", ""), 2), c) for k, c in counts.items()]
    tot = sum(c for _, c in parsed)
    if qubits is not None:
        parsed = [(sum(((b >> q) & 1) << k for k, q in enumerate(qubits)), c) for b, c in parsed]
    out = {}
    for s in range(1, 1 << m):
        x, z, sg = P.conj_circuit((0, s, 0), inv)
        acc = 0
        for r, c in parsed:
            acc += -c if P.popcount(s & r) & 1 else c
        if qubits is not None and full:
            X = Z = 0
            for k, q in enumerate(qubits):
                X |= ((x >> k) & 1) << q
                Z |= ((z >> k) & 1) << q
            x, z = X, Z
        out[(x, z)] = (-acc if sg else acc) / tot
    return out


def check_concrete(values, specs, counts_list, N):
    """values: dict returned by the real fitter on concrete counts; specs: per circuit (readout_gates, m, qubits, full). Returns problems."""
    want = {}
    klen = None
    for (ro, m, qubits, full), counts in zip(specs, counts_list):
        want.update(expected_concrete(ro, m, N, qubits, counts, full))
        klen = N if (qubits is not None and full) else m
    problems, got = [], {}
    for pk, v in values.items():
        x, z, ph = pauli_to_xz(pk)
        if len(pk) != klen:
            problems.append(f"key {pk} has {len(pk)} qubits, expected {klen}")
            continue
        if ph != 0:
            problems.append(f"key {pk} carries a phase")
        got[(x, z)] = v
    if (0, 0) not in got or abs(got[(0, 0)] - 1) > 1e-12:
        problems.append(f"identity entry missing or != 1 ({got.get((0, 0))!r})")
    if len(values) != len(want) + 1:
        problems.append(f"{len(values)} entries, expected {len(want) + 1}")
    for k, w in want.items():
        v = got.get(k)
        if v is None:
            problems.append(f"Pauli {P.to_label(klen, k + (0,), False)} missing")
        elif abs(complex(v) - w) > 1e-9:
            problems.append(f"value for {P.to_label(klen, k + (0,), False)} is {v!r}, contract {w!r}" + (" (wrong SIGN)" if abs(complex(v) + w) < 1e-9 else ""))
        if len(problems) > 4:
            break
    return problems


def symbolic_or_withdraw(symbolic_fn, concrete_fn):
    """symbolic_fn() runs the real code on symbolic counts and returns a list of problems.  If the code cannot be executed on them (it branches on a count,
    or passes the counts to numpy/float - any exception), the SAME call is repeated on dense concrete counts by concrete_fn():
        it raises there too  -> (False, [...])  a genuine failure with a concrete input
        it runs              -> (None, [...])   the symbolic (all-distributions) argument is withdrawn: UNDECIDED, never a violation"""
    try:
        return (lambda p: (not p, p))(symbolic_fn())
    except Exception as e:          # includes SymbolicBranch
        why = f"{type(e).__name__}: {e}"
    try:
        concrete_fn()
    except Exception as e2:
        return False, [f"fitter raised {type(e2).__name__}: {e2} on dense concrete counts (and {why} on symbolic counts)"]
    return None, [f"the code does not treat counts as opaque numbers ({why}); the all-distributions argument by symbolic counts is withdrawn"]
