"""C07 - circuit compression preserves the prepared state for every Clifford circuit.

Contract of stabilizer_circuits.compress_preparation_circuit(circuit, conn):
    pre : circuit over id x y z h s sdg cx cz swap on n = 2..6 qubits, (n, conn) advertised
    post: out|0..0> = circuit|0..0> up to a global phase (signed stabilizer groups equal, oracle); two-qubit gates on coupled
          pairs; two-qubit cost (and depth) = lookup metadata of the state's class; the input circuit object is unmodified;
          never raises
Frame (checked on the AST of the real function every run): the argument is used in exactly two places,
`Stabilizer(circuit)` and `rotate_stabilizer_into_state(_, circuit, ...)`.  Both are functions of the signed stabilizer group
of circuit|0..0> under the ASSUMED qiskit contract Q1 (StabilizerState(c).clifford is the signed tableau of c|0>), so "for all
gate sequences" reduces to "for all signed stabilizer states", which is C01 + C02 + C04.  Q1 itself cannot be proved here; it is
validated against the independent tableau oracle on all circuits of <= 2 gates on 2 and 3 qubits (exhaustive at that size) and
on seeded long circuits (BOUNDED).
"""
from __future__ import annotations
import ast, itertools, random, time
import numpy as np
from .. import core, e2e, adapt
from ..core import GROUND, BOUNDED, PROVED, REFUTED
from ..oracle import pauli as P, graphs as G, docs

GATESET = ("id", "x", "y", "z", "h", "s", "sdg", "cx", "cz", "swap")


def gate_instances(n):
    g = [(nm, [q]) for nm in P.GATES_1 for q in range(n)]
    g += [(nm, [a, b]) for nm in P.GATES_2 for a in range(n) for b in range(n) if a != b]
    return g


LAYOUTS = ("QuantumCircuit(n)", "one named quantum register", "two quantum registers", "QuantumCircuit(n, n): with classical bits",
           "two quantum registers + a classical register", "three quantum registers (sizes 1, n-2, 1) + classical register",
           "output of the transpiler's ElidePermutations stage: carries a TranspileLayout; SWAPs are elided into a final qubit permutation")
TRANSPILED = 6


def build_circuit(n, gates, layout=0):
    """the same gate list on different register structures: the register layout of a circuit is part of the input"""
    from qiskit import QuantumCircuit, QuantumRegister, ClassicalRegister
    if layout == 0:
        qc = QuantumCircuit(n)
    elif layout == 1:
        qc = QuantumCircuit(QuantumRegister(n, "data"))
    elif layout == 2:
        qc = QuantumCircuit(QuantumRegister((n + 1) // 2, "a"), QuantumRegister(n // 2, "b"))
    elif layout == 3:
        qc = QuantumCircuit(n, n)
    elif layout == 4:
        qc = QuantumCircuit(QuantumRegister(n // 2, "a"), QuantumRegister(n - n // 2, "b"), ClassicalRegister(2, "c"))
    elif layout == TRANSPILED:
        # the transpiler stage that elides SWAPs into a final qubit permutation, run alone (the full preset pipeline also resynthesises single-qubit gates into `u`)
        from qiskit.transpiler import PassManager
        from qiskit.transpiler.passes import ElidePermutations
        qc = QuantumCircuit(n)
        for nm, q in gates:
            getattr(qc, nm)(*q)
        return PassManager([ElidePermutations()]).run(qc)
    else:
        regs = [QuantumRegister(1, "x"), QuantumRegister(n - 2, "y"), QuantumRegister(1, "z")] if n >= 3 else [QuantumRegister(1, "x"), QuantumRegister(1, "z")]
        qc = QuantumCircuit(*regs, ClassicalRegister(1, "c"))
    for nm, q in gates:
        getattr(qc, nm)(*q)
    return qc


def eval_circuit(job):
    n, conn, gates = job[:3]
    layout = job[3] if len(job) > 3 else 0
    from htstabilizer.stabilizer_circuits import compress_preparation_circuit
    from htstabilizer.stabilizer import Stabilizer
    import htstabilizer.circuit_lookup as cl
    text = " ".join(f"{nm}{','.join(map(str, q))}" for nm, q in gates)
    rp = {"n": n, "connectivity": conn, "paulis": None, "circuit": text, "register_layout": LAYOUTS[layout], "job": [n, conn, [[nm, list(q)] for nm, q in gates], layout],
          "python": f"compress_preparation_circuit(<circuit {text[:80]} on {LAYOUTS[layout]}>, {conn!r})"}
    key = f"{n}:{conn}:{text}" + (f":layout{layout}" if layout else "")
    if layout:
        text = text + f"  [on {LAYOUTS[layout]}]"
    out = []

    def rec(fam, ok, what):
        out.append((fam, bool(ok), f"{fam}:{key}", what, rp))

    qc = build_circuit(n, gates, layout)
    before = adapt.gates_of(qc)
    if layout == TRANSPILED:
        # the input IS the transpiler's output: the contract speaks about the gates that circuit contains (whatever the transpiler made of the gate list)
        gates = [(nm, list(q)) for nm, q in before if nm not in P.IGNORED]
        if any(nm not in GATESET for nm, _ in gates):
            return []
    want = P.canon(n, P.state_generators(n, gates))
    # Q1 / C14: the Stabilizer object built from the circuit generates the signed group of circuit|0>
    try:
        st = Stabilizer(qc)
        rec("C14.circuit_format.signed_group", P.canon(n, adapt.gens_of_stabilizer(st)) == want,
            f"Stabilizer(circuit) for [{text[:60]}] does not generate the signed stabilizer group of circuit|0> (Q1)")
    except Exception as e:
        rec("C14.circuit_format.signed_group", False, f"Stabilizer(circuit) for [{text[:60]}] raised {type(e).__name__}: {e}")
    try:
        res = compress_preparation_circuit(qc, conn)
        og = adapt.gates_of(res)
    except Exception as e:
        rec("C07.noraise", False, f"compress_preparation_circuit raised {type(e).__name__}: {e} on [{text[:80]}] {n}-{conn}")
        return out
    rec("C07.noraise", True, "")
    rec("C07.input_unmodified", adapt.gates_of(qc) == before and res is not qc, f"compress_preparation_circuit modified (or returned) its input circuit [{text[:60]}]")
    rec("C07.state_preserved", P.canon(n, P.state_generators(n, og)) == want,
        f"compressed circuit for [{text[:80]}] on {n}-{conn} prepares a different state")
    bad = [(nm, q) for nm, q in og if nm not in P.IGNORED and len(q) >= 2 and (len(q) != 2 or tuple(sorted(q)) not in set(docs.coupling_edges(n, conn)))]
    rec("C02.pairs_on_edges.compressed", not bad, f"compressed circuit for [{text[:60]}] on {n}-{conn}: gates off the coupling graph {bad[:3]}")
    orbit = G.classify(n, P.state_generators(n, gates))
    if e2e.cid_map(n).get(orbit) is None:
        rec("C07.cost_of_class", False, f"no class id has its representative graph in the LC orbit of the state of [{text[:60]}]")
        return out
    info = cl.stabilizer_circuit_lookup(n, conn, e2e.cid_map(n)[orbit])
    c, d = P.two_qubit_cost(og), P.two_qubit_depth(n, og)
    rec("C04.cost_depth_eq_metadata.compressed", (c, d) == (info.cost, info.depth),
        f"compressed circuit for [{text[:60]}] on {n}-{conn}: cost/depth {(c, d)} vs metadata {(info.cost, info.depth)}")
    rec("C07.cost_of_class", c == info.cost, f"compressed circuit for [{text[:60]}] on {n}-{conn}: {c} two-qubit gates, class cost {info.cost}")
    return out


def circuit_jobs(ctx, small=False):
    rnd = random.Random(ctx.seed * 31 + 7)
    jobs = []
    if not small:
        for n, conn in [c for c in docs.ADVERTISED if c[0] <= 3]:
            gi = gate_instances(n)
            jobs.append((n, conn, []))
            jobs += [(n, conn, [g]) for g in gi]
            jobs += [(n, conn, [g1, g2]) for g1 in gi for g2 in gi]
            # every register layout: all circuits of at most one gate, and the two-gate circuits with a two-qubit gate first
            for lay in range(1, len(LAYOUTS)):
                jobs.append((n, conn, [], lay))
                jobs += [(n, conn, [g], lay) for g in gi]
                jobs += [(n, conn, [g1, g2], lay) for g1 in gi if len(g1[1]) == 2 for g2 in gi if len(g2[1]) == 1 and g2[0] in ("h", "s")]
    # circuits that already respect the coupling graph but waste gates (routing with SWAPs, repeated CX/CZ): the natural inputs of a compressor
    if not small:
        for n, conn in docs.ADVERTISED:
            edges = docs.coupling_edges(n, conn)
            for t in range(60 if ctx.quick else 600):
                L = rnd.choice([2, 3, 3, 4, 5, 6, 8])
                gates = [("h", [q]) for q in range(n) if rnd.random() < 0.5] or [("h", [rnd.randrange(n)])]      # superpositions first, so the two-qubit gates entangle
                for _ in range(L):
                    r = rnd.random()
                    if r < 0.3:
                        gates.append((rnd.choice(["h", "s", "sdg", "x", "y", "z"]), [rnd.randrange(n)]))
                    else:
                        a, b = rnd.choice(edges)
                        if rnd.random() < 0.5:
                            a, b = b, a
                        gates.append((rnd.choice(["cx", "cz", "swap", "swap"]), [a, b]))
                jobs.append((n, conn, gates, t % len(LAYOUTS)))
    # the library's own circuits fed back in, padded with gates that change nothing (every two-qubit gate written three times / one of them three times / an H pair):
    # the input then uses exactly the optimal circuit's kinds of gates, only more often - a compressor must still deliver the class cost
    if not small:
        import htstabilizer.circuit_lookup as cl
        for n, conn in docs.ADVERTISED:
            ks = list(range(docs.CLASS_COUNT[n]))
            if len(ks) > 20:
                rnd.shuffle(ks)
                ks = sorted(ks[:12 if ctx.quick else 60])
            for k in ks:
                base, _ = adapt.read_tokens(cl.stabilizer_circuit_lookup(n, conn, k).circuit_string)
                base = [(nm, list(q)) for nm, q in base]
                two = [i for i, g in enumerate(base) if len(g[1]) == 2 and g[0] in ("cx", "cz", "swap")]
                if not two:
                    continue
                pick = rnd.choice(two)
                jobs.append((n, conn, [g for i, g in enumerate(base) for _ in range(3 if i == pick else 1)], 0))
                jobs.append((n, conn, [g for i, g in enumerate(base) for _ in range(3 if i in two else 1)], 0))
                jobs.append((n, conn, base + [("h", [0]), ("h", [0])], 0))
    # transpiled inputs whose SWAPs form a permutation that is not its own inverse (3-cycles and longer): the transpiler elides them into layout.final_layout
    for n, conn in [c for c in docs.ADVERTISED if c[0] >= 3 and c[1] in ("all", "linear")]:
        for t in range(3 if ctx.quick else 12):
            qs = list(range(n))
            rnd.shuffle(qs)
            gates = [("h", [qs[0]]), ("cx", [qs[0], qs[1]]), ("s", [qs[1]]), ("swap", [qs[0], qs[1]]), ("swap", [qs[1], qs[2]])]
            if t % 3 == 1:
                gates += [("h", [qs[2]]), ("cz", [qs[2], qs[0]])]
            if t % 3 == 2 and n >= 4:
                gates += [("swap", [qs[2], qs[3]]), ("sdg", [qs[3]])]
            jobs.append((n, conn, gates, TRANSPILED))
    per = (2 if small else 8) if ctx.quick else (10 if small else 80)
    for n, conn in docs.ADVERTISED:
        gi = gate_instances(n)
        for t in range(per):
            L = rnd.choice([3, 10, 40, 120, 300]) if not small else rnd.choice([5, 30])
            gates = []
            for _ in range(L):
                g = rnd.choice(gi)
                gates.append(g)
                if rnd.random() < 0.15:
                    gates.append(g)            # redundant pairs
            jobs.append((n, conn, gates, t % len(LAYOUTS)))
    return jobs


def frame_ast(ctx):
    import htstabilizer.stabilizer_circuits as sc
    import inspect, textwrap
    fam = ctx.family("C07.frame.argument_uses", GROUND, "ast", "the circuit argument is used only as Stabilizer(circuit) and as target of rotate_stabilizer_into_state")
    fam.exhaustive = True
    src = textwrap.dedent(inspect.getsource(sc.compress_preparation_circuit))
    fn = ast.parse(src).body[0]
    uses = []
    for node in ast.walk(fn):
        if isinstance(node, ast.Call):
            for a in list(node.args) + [k.value for k in node.keywords]:
                if isinstance(a, ast.Name) and a.id == "circuit":
                    uses.append(ast.unparse(node.func))
    names = [n for n in ast.walk(fn) if isinstance(n, ast.Name) and n.id == "circuit" and isinstance(n.ctx, ast.Load)]
    stores = [n for n in ast.walk(fn) if isinstance(n, ast.Name) and n.id == "circuit" and isinstance(n.ctx, ast.Store)]
    ok = sorted(uses) == ["Stabilizer", "rotate_stabilizer_into_state"] and len(names) == 2 and not stores
    ctx.record(fam, PROVED if ok else core.UNKNOWN, {"uses": uses})
    if not ok:
        ctx.undecide(fam, f"structure drift: compress_preparation_circuit uses its argument as {uses}; the reduction to C01 no longer applies as written")


def run(ctx: core.Ctx):
    import htstabilizer.stabilizer_circuits as sc
    from htstabilizer.stabilizer import Stabilizer
    ctx.under_contract(sc.compress_preparation_circuit)
    ctx.under_contract(Stabilizer.__init__)
    ctx.selfcheck["oracle_gate_rules_checked_densely"] = P.selftest()
    from .. import prereq, symrun
    prereq.pipeline_contracts(ctx)       # glue code (all n), layer-search segment contracts (all inputs), purity of the pipeline functions
    frame_ast(ctx)
    t = time.time()
    jobs = circuit_jobs(ctx)
    results = core.pmap(eval_circuit, jobs)
    n_small = sum(1 for j in jobs if len(j[2]) <= 2 and j[0] <= 3)
    ctx.extra["register_layouts"] = list(LAYOUTS)
    for res, job in zip(results, jobs):
        exhaustive_part = len(job[2]) <= 2 and job[0] <= 3
        for fam_name, ok, key, what, rp in res:
            if not fam_name.startswith(("C07.", "C14.circuit_format")):
                continue
            fname = fam_name.replace("C14.circuit_format", "C07.Q1_validation") + (".le2gates_le3qubits" if exhaustive_part else ".seeded_long")
            fam = ctx.family(fname, GROUND if exhaustive_part else BOUNDED, "native+oracle")
            fam.exhaustive = exhaustive_part
            ctx.record(fam, PROVED if ok else REFUTED, {"n": rp["n"], "connectivity": rp["connectivity"], "circuit": rp["circuit"][:80]} if fam.total < 2 else None)
            if not ok:
                ctx.violate(fam, key[:300], what, rp)
    ctx.extra["circuits"] = {"all_circuits_of_at_most_2_gates_on_2_and_3_qubits": n_small, "seeded_long_circuits": len(jobs) - n_small}
    ctx.extra["ground_time_s"] = round(time.time() - t, 2)
    ctx.extra["explanation"] = ("Frame obligation on the AST + reduction to C01/C02/C04 relative to the assumed qiskit contract Q1; Q1 and the top-level "
                                "contract are evaluated exhaustively for circuits of <= 2 gates on <= 3 qubits and on seeded long circuits (bounded).")
    ctx.trust("oracle signed tableau simulator", "Q1 (ASSUMED): qiskit StabilizerState(c).clifford holds the signed stabilizer tableau of c|0..0> for every circuit over the gate set",
              "Q3: QuantumCircuit gate methods / inverse / compose")
    ctx.assume("'for all gate sequences (unbounded length)' is NOT proved: it is reduced to 'for all signed stabilizer states' (C01, C02, C04) under Q1",
               "Q1 validated only on the listed circuits (exhaustive for <= 2 gates on <= 3 qubits; seeded long circuits up to ~350 gates)")
    return core.finish(ctx, "other", "frame obligation on the real AST + reduction lemma to C01/C02/C04 under assumed Q1; contract evaluated on exhaustive small / seeded long circuits",
                       ctx.extra["explanation"], "./check C07 --tier " + ctx.tier)


def replay(data):
    inp = data["input"]
    if "job" in inp:
        n, conn, gl, layout = inp["job"]
        res = eval_circuit((n, conn, [(nm, list(q)) for nm, q in gl], layout))
    else:
        gates = []
        for tok in (inp.get("circuit") or "").split():
            nm = tok.rstrip("0123456789,")
            gates.append((nm, [int(x) for x in tok[len(nm):].split(",")]))
        res = eval_circuit((inp["n"], inp["connectivity"], gates))
    bad = [r for r in res if not r[1]]
    for r in bad:
        print("REPRODUCED:", r[0], r[3])
    return 1 if bad else 0
