"""C11 - tomography of a qubit subset reconstructs that subset's reduced state.   (technique: see hv/tomo.py)

Contracts:
  tomography.CircuitResult.__init__(counts, qubits)  post: for every key, stored outcome bit k = bit qubits[k] of the key read little-endian
                                                     (rightmost character = qubit 0, spaces ignored); the count object is carried unchanged;
                                                     num_qubits = len(qubits)                         [GROUND: all keys x all ordered subsets, N<=5]
  stabilizer_measurement_circuit / full_state_tomography_circuits with measured_qubits = q
                                                     post: readout circuit composed onto q (gate on (a,b) lands on (q[a],q[b])), all N qubits measured i -> i
  *Fitter.expectation_values(full_hilbert_space)     post: value(P) = sigma * sum_{b in {0,1}^N} (-1)^{s . b|q} c_b / sum c_b; with full_hilbert_space the
                                                     key carries factor k of P on qubit q[k] and identity elsewhere; 2^m entries per circuit
     => by M7 applied to the embedded circuit: value = Tr(rho P_embedded) = Tr(rho_q P) for EVERY N-qubit state (symbolic counts)
Domain: N = 3..5 (thorough: ..6), ALL ordered m-subsets for m = 2, 3 (and seeded m = 4), every configuration for m; for m = 5, 6 the key embedding and
marginalisation (C11.embed) on ALL ordered 5-lists of 6 qubits (thorough: also all 5- and 6-lists of 7) and on structured + seeded lists up to N = 8.
"""
from __future__ import annotations
import itertools, random, time
from .. import core, adapt, tomo, e2e
from ..core import SYM, GROUND, PROVED, REFUTED
from ..oracle import pauli as P, graphs as G, docs
from .c12 import measure_map


def marginal_job(N):
    """contract of the internal helper class CircuitResult.  If the class no longer has this interface (AttributeError / TypeError ...) the helper argument is withdrawn
    (one UNDECIDED record); the fitter-level families decide the property through the public API."""
    try:
        return _marginal_job(N)
    except Exception as e:
        return [("C11.marginal.post", None, f"marg:{N}:interface", f"CircuitResult no longer offers the interface this helper contract is stated for ({type(e).__name__}: {e})", {"N": N})]


def _marginal_job(N):
    from htstabilizer.tomography import CircuitResult
    out = []
    for m in range(1, N + 1):
        for ql in itertools.permutations(range(N), m):
            for spaced in (False, True):
                keys = tomo.outcome_keys(N, spaced)
                counts = {s: 1000003 + 7 * b for b, s in keys}            # one distinct number per key: which count ended up where is visible by value
                cr = CircuitResult(counts, list(ql))
                ok = cr.num_qubits == m and len(cr.results) == len(keys)
                bad = None
                for (b, s), r in zip(keys, cr.results):
                    want = 0
                    for k, q in enumerate(ql):
                        want |= ((b >> q) & 1) << k
                    if int(r.bitstring) != want or r.count != counts[s]:
                        ok, bad = False, (s, int(r.bitstring), want)
                        break
                out.append(("C11.marginal.post", ok, f"marg:{N}:{list(ql)}:{spaced}",
                            f"CircuitResult(counts, qubits={list(ql)}) on {N}-bit keys: key {bad[0] if bad else ''!r} stored as {bad[1] if bad else ''} expected {bad[2] if bad else ''}",
                            {"N": N, "qubits": list(ql), "spaced": spaced,
                             "python": f"CircuitResult({{'{bad[0] if bad else ''}': 1}}, {list(ql)}).results"}))
    # no marginalisation
    keys = tomo.outcome_keys(N)
    cr = CircuitResult({s: b for b, s in keys})
    ok = cr.num_qubits == N and [int(r.bitstring) for r in cr.results] == [b for b, _ in keys]
    out.append(("C11.marginal.post", ok, f"marg:{N}:None", f"CircuitResult(counts) on {N}-bit keys stores wrong bitstrings", {"N": N, "qubits": None}))
    return out


def subset_job(args):
    N, ql, n, conn, mode, seed = args
    from qiskit import QuantumCircuit
    import htstabilizer.tomography as T
    rnd = random.Random(seed)
    m = len(ql)
    mapping = {q: i for i, q in enumerate(ql)}
    out = []
    rp = {"N": N, "measured_qubits": list(ql), "n": n, "connectivity": conn, "mode": mode, "job": [N, list(ql), n, conn, mode, seed]}
    prep = QuantumCircuit(N)
    # the measured-qubit list in the container types a caller may use; a mutable container is OVERWRITTEN by the caller right after the circuits were generated
    # (the circuits and everything the fitters derive from them must describe the list as it was when they were requested)
    import numpy as _np
    kind = ("list", "tuple", "ndarray", "ndarray-view", "list")[seed % 5]
    if kind == "tuple":
        marg = tuple(ql)
    elif kind == "ndarray":
        marg = _np.array(ql)
    elif kind == "ndarray-view":
        marg = _np.array(list(ql) + [0, 0])[:m]
    else:
        marg = list(ql)
    rp["measured_qubits_given_as"] = kind

    def overwrite():
        other = list(ql[1:]) + list(ql[:1]) if m > 1 else [(ql[0] + 1) % N]          # another injective list of the same length
        if isinstance(marg, list):
            marg[:] = other
        elif isinstance(marg, _np.ndarray):
            marg[...] = _np.array(other)

    if mode == "fst":
        circs = T.full_state_tomography_circuits(prep, conn, marg)
        overwrite()
    else:
        orb = rnd.randrange(docs.CLASS_COUNT[n])
        gid = G.orbit_table(n)[1][orb]
        rows = G.apply_layer_unsigned(n, [(x, z) for x, z, _ in G.graph_state_gens(n, G.adj_from_id(n, gid))], [rnd.randrange(6) for _ in range(n)])
        st = e2e.mk_stabilizer(n, [(x, z, rnd.randrange(2)) for x, z in rows])
        circs = [T.stabilizer_measurement_circuit(prep, st, conn, marg)]
        overwrite()
    all_counts = []
    ros = []
    ok_asm = True
    for j, c in enumerate(circs):
        ro = adapt.gates_of(c.metadata["readout info"].circuit)
        ros.append(ro)
        body = [g for g in adapt.gates_of(c) if g[0] not in P.IGNORED]
        mapped = [(nm, [ql[q] for q in qs]) for nm, qs in ro]
        ok_asm = ok_asm and body == mapped and measure_map(c) == [(i, i) for i in range(N)] and tuple(c.metadata["readout info"].qubits) == tuple(ql) \
            and c.metadata["readout info"].total_num_qubits == N
        all_counts.append(tomo.symbolic_counts(N, f"c{j}_", spaced=(j % 2 == 1)))
    out.append(("C11.compose.onto_measured_qubits", ok_asm, f"asm:{N}:{list(ql)}:{n}:{conn}:{mode}", f"{mode} circuits for measured_qubits={list(ql)} of {N}: readout not composed onto the listed qubits / wrong measure map", rp))
    spaced_odd = True

    def call(counts_list, full):
        if mode == "fst":
            return T.FullStateTomographyFitter(tomo.FakeResult(counts_list), circs).expectation_values(full_hilbert_space=full)
        return T.StabilizerMeasurementFitter(tomo.FakeResult(counts_list[0]), circs[0]).expectation_values(full_hilbert_space=full)

    for full in (True, False):
        def symbolic():
            probs = []
            vals = call(all_counts, full)
            if mode == "fst":
                # split the union back per circuit by the symbols occurring in the value
                per = {j: {} for j in range(len(circs))}
                ident = None
                for k, v in vals.items():
                    if isinstance(v, tomo.Frac):
                        j = int(next(iter(v.den.c)).split("_")[0][1:])
                        per[j][k] = v
                    else:
                        ident = (k, v)
                if len(vals) != 4 ** m:
                    probs.append(f"{len(vals)} Paulis reported, expected {4 ** m}")
                for j in range(len(circs)):
                    d = dict(per[j])
                    if ident is not None:
                        d[ident[0]] = ident[1]
                    probs += tomo.check_fitter_dict(d, ros[j], m, N, list(ql), f"c{j}_", full)
            else:
                probs += tomo.check_fitter_dict(vals, ros[0], m, N, list(ql), "c0_", full)
            return probs

        ok, probs = tomo.symbolic_or_withdraw(symbolic, lambda: call(tomo.dense_concrete(N, len(circs), rnd, spaced_odd), full))
        out.append((f"C11.fitter.values.{'full_register' if full else 'reduced'}", ok, f"fit:{N}:{list(ql)}:{n}:{conn}:{mode}:{full}",
                    f"{mode} on qubits {list(ql)} of {N} ({n}-{conn}, full_hilbert_space={full}): {probs[:3]}", rp))
        specs = [(ro, m, list(ql), full) for ro in ros]
        for tag, cl in tomo.concrete_sets(N, len(circs), rnd, all_deltas=False, spaced_odd=spaced_odd, light=True):
            try:
                pc = tomo.check_concrete(call(cl, full), specs, cl, N)
            except Exception as e:
                pc = [f"fitter raised {type(e).__name__}: {e}"]
            out.append((f"C11.fitter.values.concrete_results", not pc, f"conc:{N}:{list(ql)}:{n}:{conn}:{mode}:{full}:{tag}",
                        f"{mode} on qubits {list(ql)} of {N} ({n}-{conn}, full_hilbert_space={full}), {tag}: {pc[:3]}", dict(rp, counts=tag)))
    return out


def structured_lists(N, m, rnd, seeded):
    """ordered m-lists of range(N) with structure that index-arithmetic slips depend on: every ascending subset, each with one adjacent transposition,
    reversed, rotated; plus seeded random lists"""
    out = []
    for sub in itertools.combinations(range(N), m):
        sub = list(sub)
        out.append(tuple(sub))
        out.append(tuple(reversed(sub)))
        for i in range(m - 1):
            t = list(sub)
            t[i], t[i + 1] = t[i + 1], t[i]
            out.append(tuple(t))
        for r in range(1, m):
            out.append(tuple(sub[r:] + sub[:r]))
    for _ in range(seeded):
        out.append(tuple(rnd.sample(range(N), m)))
    return list(dict.fromkeys(out))


def embed_job(args):
    """key embedding / marginalisation of the real fitter for large m: stabilizer measurement of the ring graph state, symbolic
    counts over all 2^N outcomes, both key modes"""
    N, lists, conn = args
    from qiskit import QuantumCircuit
    import htstabilizer.tomography as T
    from htstabilizer.stabilizer import Stabilizer
    from htstabilizer.graph import Graph
    out = []
    for ql in lists:
        m = len(ql)
        st = Stabilizer(Graph.cycle(m))          # ring graph state: the layer search is fast (few solutions); the embedding does not depend on the state
        rp = {"N": N, "measured_qubits": list(ql), "n": m, "connectivity": conn, "mode": "embed"}
        import random as _r
        rnd = _r.Random(hash((N, tuple(ql))) & 0xFFFFFF)
        try:
            c = T.stabilizer_measurement_circuit(QuantumCircuit(N), st, conn, list(ql))
            ro = adapt.gates_of(c.metadata["readout info"].circuit)
        except Exception as e:
            out.append((f"C11.embed", False, f"embed:{N}:{list(ql)}", f"measuring qubits {list(ql)} of {N}: stabilizer_measurement_circuit raised {type(e).__name__}: {e}", rp))
            continue

        def symbolic():
            counts = tomo.symbolic_counts(N, "c0_")
            probs = []
            for full in (True, False):
                vals = T.StabilizerMeasurementFitter(tomo.FakeResult(counts), c).expectation_values(full_hilbert_space=full)
                probs += [f"full={full}: {p}" for p in tomo.check_fitter_dict(vals, ro, m, N, list(ql), "c0_", full)]
            return probs

        def concrete():
            cl = tomo.dense_concrete(N, 1, rnd)
            probs = []
            for full in (True, False):
                vals = T.StabilizerMeasurementFitter(tomo.FakeResult(cl[0]), c).expectation_values(full_hilbert_space=full)
                probs += [f"full={full}: {p}" for p in tomo.check_concrete(vals, [(ro, m, list(ql), full)], cl, N)]
            return probs

        ok, probs = tomo.symbolic_or_withdraw(symbolic, concrete)
        if ok is None:
            # symbolic counts unusable on this code: decide the embedding on dense concrete counts instead (generic counts separate all 2^m - 1 values)
            pc = concrete()
            ok, probs = (False, pc) if pc else (None, probs)
        out.append((f"C11.embed", ok, f"embed:{N}:{list(ql)}", f"measuring qubits {list(ql)} of {N}: {probs[:2]}", rp))
    return out


def run(ctx: core.Ctx):
    import htstabilizer.tomography as T
    for f in (T.CircuitResult.__init__, T._compute_expectation_value, T.StabilizerMeasurementFitter.expectation_values,
              T.FullStateTomographyFitter.expectation_values, T.stabilizer_measurement_circuit, T.full_state_tomography_circuits):
        ctx.under_contract(f)
    ctx.selfcheck["oracle_gate_rules_checked_densely"] = P.selftest()
    from ..contracts import pipeline as _pl
    from .. import symrun as _sr
    _sr.run(ctx, _pl.tomography_glue_tasks(), label="tomography-glue")      # density_matrix() = linear inversion of expectation_values(), for every input
    t = time.time()
    fam = ctx.family("C11.marginal.post", GROUND, "native")
    fam.exhaustive = True
    fam.domain = "all keys of N = 1..5 bits (with and without a register space) x all ordered subsets of qubits"
    for res in core.pmap(marginal_job, [1, 2, 3, 4, 5] + ([] if ctx.quick else [6]), chunks=1):
        for famname, ok, key, what, rp in res:
            if ok is None:
                ctx.record(fam, core.UNKNOWN, rp)
                ctx.undecide(fam, what)
                continue
            ctx.record(fam, PROVED if ok else REFUTED, rp if fam.total < 2 else None)
            if not ok:
                ctx.violate(fam, key, what, rp)
    rnd = random.Random(ctx.seed + 11)
    jobs = []
    for N in ([3, 4, 5] if ctx.quick else [3, 4, 5, 6]):
        for m in (2, 3, 4):
            if m > N:
                continue
            subsets = list(itertools.permutations(range(N), m))
            if m == 4 or (ctx.quick and N == 5 and m == 3) or N == 6:
                rnd.shuffle(subsets)
                subsets = subsets[:12]
            confs = [c for c in docs.ADVERTISED if c[0] == m]
            for ql in subsets:
                for n, conn in (confs if not ctx.quick else [confs[rnd.randrange(len(confs))], confs[0]]):
                    if not (m == 4 and N >= 5 and ctx.quick):
                        jobs.append((N, ql, n, conn, "fst", rnd.randrange(1 << 30)))
                    jobs.append((N, ql, n, conn, "smc", rnd.randrange(1 << 30)))
    jobs = list(dict.fromkeys(jobs))
    for res in core.pmap(subset_job, jobs):
        for famname, ok, key, what, rp in res:
            conc = famname.endswith("concrete_results")
            fam = ctx.family(famname, GROUND if conc else SYM, "native+oracle" if conc else "native-exec+linear-normal-form+oracle")
            fam.exhaustive = True
            fam.domain = "N=3..5(6): all ordered 2- and 3-subsets (seeded where stated), configurations for m; " + \
                ("concrete results (deterministic / two-outcome / dense / float; absent keys; register spaces)" if conc else "ALL N-qubit states via symbolic counts")
            if ok is None:
                ctx.record(fam, core.UNKNOWN, rp)
                ctx.undecide(fam, what)
                continue
            ctx.record(fam, PROVED if ok else REFUTED, rp if fam.total < 2 else None)
            if not ok:
                ctx.violate(fam, key, what, rp)
    # key embedding for m = 5, 6 (the readout circuit plays no role in it): all ordered subsets where affordable, structured + seeded lists otherwise
    ejobs, tags = [], []
    plan = [(6, 5, "all"), (7, 5, "structured" if ctx.quick else "all"), (7, 6, "structured" if ctx.quick else "all"), (8, 6, "structured"), (8, 5, "structured")]
    for N, m, mode in plan:
        lists = list(itertools.permutations(range(N), m)) if mode == "all" else structured_lists(N, m, rnd, 150 if ctx.quick else 1500)
        for ch in core.chunked(lists, 32):
            ejobs.append((N, ch, "all"))
            tags.append((N, m, mode))
    for (N, m, mode), res in zip(tags, core.pmap(embed_job, ejobs, chunks=1)):
        for famname, ok, key, what, rp in res:
            exh = mode == "all"
            fam = ctx.family(f"C11.embed.m{m}_of_{N}" + ("" if exh else ".structured_and_seeded_lists"), SYM if exh else core.BOUNDED, "native-exec+linear-normal-form+oracle",
                             "full-register keys carry factor k on qubit qubits[k]; values marginalise exactly the listed qubits; symbolic counts over all 2^N outcomes")
            fam.exhaustive = exh
            fam.domain = f"{'ALL ordered' if exh else 'structured (ascending / reversed / one adjacent transposition / rotations of every subset) + seeded'} {m}-lists of {N} qubits"
            if ok is None:
                ctx.record(fam, core.UNKNOWN, rp)
                ctx.undecide(fam, what)
                continue
            ctx.record(fam, PROVED if ok else REFUTED, rp if fam.total < 2 else None)
            if not ok:
                ctx.violate(fam, key, what, rp)
    ctx.extra["ground_time_s"] = round(time.time() - t, 2)
    ctx.extra["subset_cases"] = len(jobs)
    tomo.prep_variants(ctx, "C11", True)
    ctx.trust("oracle tableau simulator", "M7 applied to the readout circuit embedded on the measured qubits", "Q2/Q5/Q6 as in C12")
    ctx.assume("exact statistics; float arithmetic treated as real", "N up to 5 (6 thorough); m=4 and some (N, m) combinations seeded - the marginalisation contract itself is exhaustive for N<=5")
    return core.finish(ctx, "proof", "real fitter executed on symbolic counts over the full N-qubit outcome space; marginalisation contract exhaustive for N<=5",
                       "Reduced-state tomography contract for all N-qubit states via linearity; all ordered subsets for the listed (N, m).", "./check C11 --tier " + ctx.tier)


def replay(data):
    if "variant" in data.get("input", {}):
        return tomo.replay_prep_variant(data["input"])
    inp = data["input"]
    if inp.get("mode") == "embed":
        bad = [r for r in embed_job((inp["N"], [tuple(inp["measured_qubits"])], inp["connectivity"])) if r[1] is False]
    elif "job" in inp:
        j = inp["job"]
        bad = [r for r in subset_job((j[0], tuple(j[1]), j[2], j[3], j[4], j[5])) if r[1] is False]
    else:
        bad = [r for r in marginal_job(inp["N"]) if not r[1] and r[2] == data["key"]]
    for r in bad:
        print("REPRODUCED:", r[3])
    return 1 if bad else 0
