"""C03 - the readout circuit diagonalises the whole stabilizer group, does not depend on signs, and its inverse prepares
the state up to signs.

Contract of stabilizer_circuits.get_readout_circuit (transcribed from the property):
    pre : valid stabilizer, advertised configuration
    post: every group element g: C g C^dagger has no X component (oracle conjugation; all 2^n elements for n<=4, the n
          generators above - conjugation is a group homomorphism so generators suffice);
          inverse(C)|0..0> has the given group up to signs;
          frame: the `phases` attribute is never read (representation-hiding stub: a Stabilizer whose .phases raises),
          hence the circuit is the same for every sign vector; argument unmodified; never raises
The sign-free pipeline holds for ALL valid inputs by C06 + C17 + C16 + lemma K4 (DESIGN 5); here the top-level contract is
evaluated on ALL groups for n<=4 (readout is sign-free, so this is exhaustive for n<=4) and on every class with seeded
members for n=5,6 (thorough: all 75735 five-qubit groups).
"""
from __future__ import annotations
import time
import numpy as np
from .. import core, e2e, adapt
from ..core import GROUND, BOUNDED, PROVED, REFUTED
from ..oracle import pauli as P, graphs as G, docs


def frame_job(cfg):
    """readout path never reads signs: run on a Stabilizer whose phases attribute raises"""
    n, conn = cfg
    from htstabilizer.stabilizer import Stabilizer
    from htstabilizer.stabilizer_circuits import get_readout_circuit

    class NoPhases(Stabilizer):
        @property
        def phases(self):
            raise AttributeError("frame violation: the readout path read the signs")

        @phases.setter
        def phases(self, v):
            pass

    out = []
    orbit_of, reps = G.orbit_table(n)
    for orb, gid in enumerate(reps):
        rows = [(x, z) for x, z, _ in G.graph_state_gens(n, G.adj_from_id(n, gid))]
        layer = [(orb * 7 + q * 3) % 6 for q in range(n)]
        rows = G.apply_layer_unsigned(n, rows, layer)
        R, S, ph = adapt.matrices_from_gens(n, [(x, z, 0) for x, z in rows])
        st = Stabilizer((R, S))
        ref = adapt.gates_of(get_readout_circuit(st, conn))
        st2 = NoPhases.__new__(NoPhases)
        st2.__dict__.update({k: v for k, v in st.__dict__.items() if k != "phases"})
        try:
            got = adapt.gates_of(get_readout_circuit(st2, conn))
            ok = adapt.circuit_key(got) == adapt.circuit_key(ref)
            why = "circuit differs" if not ok else ""
        except AttributeError as e:
            ok, why = None, str(e)          # the code touched .phases: the representation-hiding argument is withdrawn (UNDECIDED); the next clause decides natively
        labels = [P.to_label(n, (x, z, 0)) for x, z in rows]
        out.append(("frame", ok, f"frame:{n}:{conn}:{orb}", f"readout on {n}-{conn} class orbit {orb}: {why}", {"n": n, "connectivity": conn, "paulis": labels}))
        # sign independence observed directly: the readout circuit for several sign vectors (all for n<=3) equals the one for all-plus signs
        svs = list(__import__("itertools").product((0, 1), repeat=n)) if n <= 3 else [tuple((orb >> q ^ k) & 1 for q in range(n)) for k in (1, 2, 5)] + [tuple([1] * n)]
        same = True
        for sv in svs:
            st3 = Stabilizer((R.copy(), S.copy(), np.array(sv, dtype=np.int8)))
            same = same and adapt.circuit_key(adapt.gates_of(get_readout_circuit(st3, conn))) == adapt.circuit_key(ref)
        out.append(("signs", same, f"signs:{n}:{conn}:{orb}", f"readout circuit on {n}-{conn} class orbit {orb} changes with the signs of the generators {labels}",
                    {"n": n, "connectivity": conn, "paulis": labels}))
    return out


def five_qubit_job(args):
    conn, keys = args
    res = []
    for key, orb in keys:
        rows = G.rows_from_key(5, key)
        r = e2e.eval_state((5, conn, [(x, z, 0) for x, z in rows], "matrix", orb))
        res.append([x for x in r if x[0].startswith("C03.")])
    return res


def run(ctx: core.Ctx):
    import htstabilizer.stabilizer_circuits as sc
    for f in (sc.get_readout_circuit, sc._get_preparation_circuit_modulo_phase):
        ctx.under_contract(f)
    ctx.selfcheck["oracle_gate_rules_checked_densely"] = P.selftest()
    from .. import prereq, symrun
    prereq.pipeline_contracts(ctx)       # glue code (all n), layer-search segment contracts (all inputs), purity of the pipeline functions
    jobs, desc = e2e.build_jobs(ctx, parts=("readout",))
    t = time.time()
    results = core.pmap(e2e.eval_state, jobs)
    e2e.book(ctx, results, ("C03.", "Q4."), lambda fam, n: GROUND if n <= 4 else BOUNDED)
    fam = ctx.family("C03.frame.signs_never_read", GROUND, "native", "get_readout_circuit completes on a Stabilizer whose .phases raises, with the same gate list")
    fam.exhaustive = True
    fam.domain = "one member of every class of every advertised configuration"
    fam2 = ctx.family("C03.readout.sign_independent", GROUND, "native", "the readout circuit is identical for several sign vectors of the same generators (all sign vectors for n<=3)")
    fam2.exhaustive = True
    fam2.domain = fam.domain
    for res in core.pmap(frame_job, docs.ADVERTISED, chunks=1):
        for kind, ok, key, what, rp in res:
            f_ = fam if kind == "frame" else fam2
            if ok is None:
                ctx.record(f_, core.UNKNOWN, rp)
                ctx.undecide(f_, what)
                continue
            ctx.record(f_, PROVED if ok else REFUTED, rp if f_.total < 2 else None)
            if not ok:
                ctx.violate(f_, key, what, rp)
    if not ctx.quick:
        groups = list(G.all_groups(5).items())
        jobs5 = []
        for conn in [c for n, c in docs.ADVERTISED if n == 5]:
            for ch in core.chunked(groups, 64):
                jobs5.append((conn, ch))
        res5 = core.pmap(five_qubit_job, jobs5, chunks=1)
        flat = [r for chunk in res5 for r in chunk]
        e2e.book(ctx, flat, ("C03.",), lambda fam, n: GROUND)
        desc["5-* (thorough)"] = f"all 75735 five-qubit groups x 6 connectivities: {len(flat)} cases (exhaustive; readout is sign-free)"
    ctx.extra["domains"] = desc
    ctx.extra["ground_time_s"] = round(time.time() - t, 2)
    ctx.trust("oracle tableau simulator; group enumeration count-checked", "Q3 (qiskit gate append / inverse semantics observed through the instruction list)")
    ctx.assume("n<=4: exhaustive over all groups (the readout path provably never reads signs: C03.frame.signs_never_read)",
               "n=6 (and n=5 in the quick tier): every class with seeded members - BOUNDED, not counted; all inputs are covered by the C06+C16+C17 chain")
    return core.finish(ctx, "proof", "top-level contract evaluated by an independent tableau oracle on completely enumerated domains; frame by representation hiding",
                       "Readout contract on all stabilizer groups for n<=4 (n<=5 thorough), sign-independence by a representation-hiding frame run.",
                       "./check C03 --tier " + ctx.tier)


def replay(data):
    inp = data["input"]
    gens = [P.from_label(l) for l in inp["paulis"]]
    res = e2e.eval_state((inp["n"], inp["connectivity"], gens, inp.get("format", "matrix"), None))
    bad = [r for r in res if not r[1] and r[0].startswith("C03")]
    for r in bad:
        print("REPRODUCED:", r[0], r[3])
    if data["obligation"].startswith("C03.frame"):
        bad = [r for r in frame_job((inp["n"], inp["connectivity"])) if r[1] is False]
        for r in bad:
            print("REPRODUCED:", r[3])
    return 1 if bad else 0
