"""C08 - no silent wrong answers: invalid or unsupported requests are rejected.

  C08.validate.value[n]      SYM: Stabilizer.validate() is True <=> the n generators are linearly independent and pairwise commuting, for ALL R, S
                             (modular over f2.rank's contract; hv/contracts/stab.py)
  C08.gate.post              connectivity_support.assert_connectivity_is_supported(n, c) raises <=> (n, c) is not one of the 20 advertised pairs, for ALL
                             integers n and ALL strings c: the real function is run on representation-hiding proxies - an integer known only by its position
                             relative to the integer literals of the function, a string that supports only ==, != and formatting - so that completing on a
                             proxy proves the outcome is the same for every value the proxy stands for               (+ is_connectivity_supported)
  C08.gate.entrypoints       GROUND: every public entry point x (n in 1..8) x (all documented names, junk names and EVERY name for which a table file exists
                             in the data directory): raises <=> not advertised
  C08.gate.dominates_lookup  every table-reading entry point passes the gate with its own (n, connectivity) before the first lookup (call monitor in the verifier
                             process) - together with gate.post this covers every connectivity string, not only the probed ones
  C08.invalid_input          GROUND: ALL 2^(2n^2) matrix pairs x sign vectors for n = 2 (thorough: n = 3 too), structured + seeded invalid inputs above:
                             get_preparation_circuit raises on every invalid input and is exact on valid ones; get_readout_circuit raises or returns a circuit that
                             diagonalises every given operator
  lemma (sound_any_input)    C16 soundness has no validity precondition: whenever the sign-free pipeline returns, check_LC holds for the given operators.
"""
from __future__ import annotations
import itertools
import ast, inspect, itertools, random, textwrap, time
import numpy as np
from .. import core, symrun, adapt, e2e
from ..core import SYM, GROUND, BOUNDED, PROVED, REFUTED, UNKNOWN
from ..contracts import stab as C
from ..oracle import pauli as P, graphs as G, docs


class Ambiguous(Exception):
    pass


class RegionInt:
    """an integer known only to lie in [lo, hi] (None = unbounded); comparisons with ints must be decided by the region"""

    def __init__(self, lo, hi):
        self.lo, self.hi = lo, hi

    def _cmp(self, o):
        if not isinstance(o, int) or isinstance(o, bool):
            raise Ambiguous(f"compared with {type(o).__name__}")
        if self.hi is not None and self.hi < o:
            return -1
        if self.lo is not None and self.lo > o:
            return 1
        if self.lo == self.hi == o:
            return 0
        raise Ambiguous(f"region [{self.lo},{self.hi}] vs {o}")

    def __lt__(self, o): return self._cmp(o) < 0
    def __le__(self, o): return self._cmp(o) <= 0
    def __gt__(self, o): return self._cmp(o) > 0
    def __ge__(self, o): return self._cmp(o) >= 0
    def __eq__(self, o): return self._cmp(o) == 0
    def __ne__(self, o): return self._cmp(o) != 0
    def __hash__(self): raise Ambiguous("hash")
    def __format__(self, spec): return f"<int in [{self.lo},{self.hi}]>"
    __str__ = __repr__ = lambda self: f"<int in [{self.lo},{self.hi}]>"
    def __bool__(self): raise Ambiguous("truth value")
    def __index__(self): raise Ambiguous("index")


class OpaqueStr:
    """a string different from every literal of the function; only ==, != and formatting are available"""

    def __eq__(self, o):
        if isinstance(o, str):
            return False
        raise Ambiguous("string compared with non-string")

    def __ne__(self, o):
        return not self.__eq__(o)

    def __hash__(self): raise Ambiguous("hash of the connectivity name")
    def __format__(self, spec): return "<other string>"
    __str__ = __repr__ = lambda self: "<other string>"
    def __len__(self): raise Ambiguous("len")
    def __getitem__(self, i): raise Ambiguous("indexing")
    def __iter__(self): raise Ambiguous("iteration")
    def __contains__(self, x): raise Ambiguous("contains")
    def __bool__(self): raise Ambiguous("truth value")


def gate_proxies(ctx):
    import htstabilizer.connectivity_support as cs
    fam = ctx.family("C08.gate.post", SYM, "representation-hiding proxies", "assert_connectivity_is_supported raises <=> (n, c) not advertised, all ints n, all strings c")
    fam.exhaustive = True
    ctx.under_contract(cs.assert_connectivity_is_supported)
    ctx.under_contract(cs.is_connectivity_supported)
    src = textwrap.dedent(inspect.getsource(cs.assert_connectivity_is_supported))
    tree = ast.parse(src)
    ints = sorted({n.value for n in ast.walk(tree) if isinstance(n, ast.Constant) and isinstance(n.value, int) and not isinstance(n.value, bool)})
    strs = sorted({n.value for n in ast.walk(tree) if isinstance(n, ast.Constant) and isinstance(n.value, str) and len(n.value) < 12 and " " not in n.value})
    if not ints:
        ctx.record(fam, UNKNOWN)
        ctx.undecide(fam, "structure drift: no integer literals found in assert_connectivity_is_supported")
        return
    # soundness of the 'any other string' proxy: it is not a str, so the argument only stands if the NAME parameter is used in nothing but ==, !=, membership in a
    # list/tuple/set DISPLAY (not in a string: `c in ("all")` is a substring test), f-string formatting, and as an argument passed on unchanged
    uses = []
    for fn_ in (cs.assert_connectivity_is_supported, cs.is_connectivity_supported):
        t_ = ast.parse(textwrap.dedent(inspect.getsource(fn_)))
        fd = t_.body[0]
        pname = fd.args.args[1].arg if len(fd.args.args) > 1 else None
        iname = fd.args.args[0].arg if fd.args.args else None
        parents = {}
        for nd in ast.walk(t_):
            for ch in ast.iter_child_nodes(nd):
                parents[ch] = nd
        for nd in ast.walk(t_):
            if isinstance(nd, ast.Name) and nd.id == pname and isinstance(nd.ctx, ast.Load):
                par = parents.get(nd)
                okuse = False
                if isinstance(par, ast.Compare) and par.left is nd and len(par.ops) == 1:
                    op, rhs = par.ops[0], par.comparators[0]
                    okuse = (isinstance(op, (ast.Eq, ast.NotEq)) and isinstance(rhs, ast.Constant)) or \
                            (isinstance(op, (ast.In, ast.NotIn)) and isinstance(rhs, (ast.List, ast.Tuple, ast.Set)) and all(isinstance(e, ast.Constant) for e in rhs.elts))
                elif isinstance(par, ast.FormattedValue):
                    okuse = True
                elif isinstance(par, ast.Call) and nd in par.args and isinstance(par.func, ast.Name) and par.func.id in ("assert_connectivity_is_supported", "is_connectivity_supported"):
                    okuse = True
                if not okuse:
                    uses.append(f"{fn_.__name__}: {ast.unparse(par) if par is not None else pname}"[:120])
            if isinstance(nd, ast.Name) and nd.id == iname and isinstance(nd.ctx, ast.Load):
                # the qubit count: comparisons with integer literals (on either side, chained or not), formatting, passing on
                par = parents.get(nd)
                okuse = False
                if isinstance(par, ast.Compare):
                    terms = [par.left] + list(par.comparators)
                    okuse = all(t is nd or (isinstance(t, ast.Constant) and isinstance(t.value, int)) or
                                (isinstance(t, (ast.List, ast.Tuple, ast.Set)) and all(isinstance(e, ast.Constant) for e in t.elts)) for t in terms)
                elif isinstance(par, ast.FormattedValue):
                    okuse = True
                elif isinstance(par, ast.Call) and nd in par.args and isinstance(par.func, ast.Name) and par.func.id in ("assert_connectivity_is_supported", "is_connectivity_supported"):
                    okuse = True
                if not okuse:
                    uses.append(f"{fn_.__name__}: {ast.unparse(par) if par is not None else iname}"[:120])
    if uses:
        ctx.record(fam, UNKNOWN)
        ctx.undecide(fam, f"the qubit count / connectivity name is used beyond comparisons with literals / membership in a display of literals ({uses[:3]}): the region and 'any other string' proxies do not represent such code; "
                          "the all-strings argument is withdrawn, the name grid (documented names, their substrings / case / padding variants, junk) still decides natively")
        return
    regions = [RegionInt(None, ints[0] - 1)]
    for a, b in zip(ints, ints[1:] + [None]):
        regions.append(RegionInt(a, a))
        if b is None:
            regions.append(RegionInt(a + 1, None))
        elif b > a + 1:
            regions.append(RegionInt(a + 1, b - 1))
    names = sorted(set(strs) | set(docs.NAMES)) + [OpaqueStr()]
    fam.domain = f"{len(regions)} integer regions (breakpoints = the function's integer literals {ints}) x {len(names)} name classes (literals + 'any other string')"
    adv = set(docs.ADVERTISED)
    for r in regions:
        for nm in names:
            # what the specification says for every (n, c) represented by (r, nm)
            members = [r.lo] if r.lo is not None and r.lo == r.hi else None
            want_ok = members is not None and isinstance(nm, str) and (members[0], nm) in adv
            if members is None and isinstance(nm, str):
                # a region of several ints: advertised for none of them (advertised n are 2..6, each a singleton region iff it is a literal)
                rng = range(r.lo if r.lo is not None else -3, (r.hi if r.hi is not None else 12) + 1)
                if any((k, nm) in adv for k in rng):
                    ctx.record(fam, UNKNOWN)
                    ctx.undecide(fam, f"region {r} mixes advertised and unadvertised qubit counts (literals {ints})")
                    continue
            for fn, mode in ((cs.assert_connectivity_is_supported, "assert"), (cs.is_connectivity_supported, "is")):
                try:
                    res = fn(r, nm)
                    raised = False
                except Ambiguous as e:
                    ctx.record(fam, UNKNOWN)
                    ctx.undecide(fam, f"{mode}({r}, {nm}): the function inspects its argument beyond comparisons with its own literals: {e}")
                    continue
                except AssertionError:
                    raised, res = True, None
                except Exception as e:
                    raised, res = True, e
                if mode == "assert":
                    ok = raised == (not want_ok)
                else:
                    ok = (not raised) and res == want_ok
                ctx.record(fam, PROVED if ok else REFUTED, {"n": str(r), "connectivity": str(nm), "fn": mode} if fam.total < 3 else None)
                if not ok:
                    rep_n = r.lo if r.lo is not None else r.hi
                    rep_c = nm if isinstance(nm, str) else "some-other-name"
                    ctx.violate(fam, f"gate:{mode}:{r}:{nm}", f"{fn.__name__}(n in [{r.lo},{r.hi}], {nm}) -> {'raised' if raised else res}, specification: {'supported' if want_ok else 'not supported'}",
                                {"n": rep_n, "connectivity": rep_c, "python": f"{fn.__name__}({rep_n}, {rep_c!r})"})


def entry_job(args):
    n, name = args
    from qiskit import QuantumCircuit
    from htstabilizer.stabilizer import Stabilizer
    import htstabilizer.stabilizer_circuits as sc
    import htstabilizer.mub_circuits as mc
    import htstabilizer.connectivity_support as cs
    import htstabilizer.tomography as T
    adv = (n, name) in docs.ADVERTISED
    st = Stabilizer(["I" * q + "Z" + "I" * (n - 1 - q) for q in range(n)])
    qc = QuantumCircuit(n)
    qc.h(0)
    eps = {
        "get_preparation_circuit": lambda: sc.get_preparation_circuit(st, name),
        "get_readout_circuit": lambda: sc.get_readout_circuit(st, name),
        "compress_preparation_circuit": lambda: sc.compress_preparation_circuit(qc, name),
        "get_mub_circuits": lambda: mc.get_mub_circuits(n, name),
        "get_mubs": lambda: mc.get_mubs(n, name),
        "get_mub_info": lambda: mc.get_mub_info(n, name),
        "get_connectivity_graph": lambda: cs.get_connectivity_graph(n, name),
        "stabilizer_measurement_circuit": lambda: T.stabilizer_measurement_circuit(qc, st, name),
        "full_state_tomography_circuits": lambda: T.full_state_tomography_circuits(qc, name),
        "is_connectivity_supported": lambda: cs.is_connectivity_supported(n, name),
    }
    out = []
    for ep, call in eps.items():
        try:
            r = call()
            raised = False
        except Exception as e:
            raised, r = True, e
        if ep == "is_connectivity_supported":
            ok = (not raised) and r == adv
        else:
            ok = raised == (not adv)
        out.append(("C08.gate.entrypoints", ok, f"ep:{ep}:{n}:{name}", f"{ep} with ({n}, {name!r}): {'raised ' + type(r).__name__ if raised else 'served'}; advertised: {adv}",
                    {"n": n, "connectivity": name, "entry_point": ep}))
    return out


def dominance_job(cfg):
    """contract: every public entry point calls the configuration gate with its own (n, connectivity) BEFORE the first table lookup"""
    n, name = cfg
    from qiskit import QuantumCircuit
    from htstabilizer.stabilizer import Stabilizer
    import htstabilizer.stabilizer_circuits as sc
    import htstabilizer.mub_circuits as mc
    import htstabilizer.connectivity_support as cs
    import htstabilizer.tomography as T
    import htstabilizer.circuit_lookup as cl
    log = []
    real_gate = cs.assert_connectivity_is_supported
    real_sl, real_ml = cl.stabilizer_circuit_lookup, cl.mub_circuit_lookup

    def gate(nq, c):
        log.append(("gate", nq, c))
        return real_gate(nq, c)

    def sl(nq, c, k):
        log.append(("lookup", nq, c))
        return real_sl(nq, c, k)

    def ml(nq, c):
        log.append(("lookup", nq, c))
        return real_ml(nq, c)

    patched = []
    for mod in (sc, mc, cs, T):
        if getattr(mod, "assert_connectivity_is_supported", None) is real_gate:
            patched.append((mod, "assert_connectivity_is_supported", real_gate))
            setattr(mod, "assert_connectivity_is_supported", gate)
    cl.stabilizer_circuit_lookup, cl.mub_circuit_lookup = sl, ml
    out = []
    try:
        st = Stabilizer(["I" * q + "Z" + "I" * (n - 1 - q) for q in range(n)])
        qc = QuantumCircuit(n)
        qc.h(0)
        eps = {
            "get_preparation_circuit": lambda: sc.get_preparation_circuit(st, name),
            "get_readout_circuit": lambda: sc.get_readout_circuit(st, name),
            "compress_preparation_circuit": lambda: sc.compress_preparation_circuit(qc, name),
            "get_mub_circuits": lambda: mc.get_mub_circuits(n, name),
            "get_mubs": lambda: mc.get_mubs(n, name),
            "get_mub_info": lambda: mc.get_mub_info(n, name),
            "stabilizer_measurement_circuit": lambda: T.stabilizer_measurement_circuit(qc, st, name),
            "full_state_tomography_circuits": lambda: T.full_state_tomography_circuits(qc, name),
        }
        for ep, call in eps.items():
            del log[:]
            try:
                call()
            except Exception:
                pass
            first_lookup = next((i for i, e in enumerate(log) if e[0] == "lookup"), None)
            if first_lookup is None:
                ok, why = False, "no table lookup observed"
            else:
                lk = log[first_lookup]
                ok = any(e[0] == "gate" and e[1] == lk[1] and e[2] == lk[2] for e in log[:first_lookup])
                why = f"first events: {log[:3]}"
            out.append(("C08.gate.dominates_lookup", ok, f"dom:{ep}:{n}:{name}", f"{ep} on ({n}, {name!r}) reads a lookup table without first passing the configuration gate ({why})",
                        {"n": n, "connectivity": name, "entry_point": ep}))
    finally:
        for mod, attr, val in patched:
            setattr(mod, attr, val)
        cl.stabilizer_circuit_lookup, cl.mub_circuit_lookup = real_sl, real_ml
    return out


def classify_input(n, gens):
    return P.is_valid_stabilizer(n, gens)


def invalid_job(args):
    n, conn, cases = args
    from htstabilizer.stabilizer import Stabilizer
    from htstabilizer.stabilizer_circuits import get_preparation_circuit, get_readout_circuit
    out = []
    for gens in cases:
        valid = classify_input(n, gens)
        labels = [P.to_label(n, g) for g in gens]
        rp = {"n": n, "connectivity": conn, "paulis": labels, "valid": valid}
        R, S, ph = adapt.matrices_from_gens(n, gens)
        st = Stabilizer((R, S, ph))
        try:
            qc = get_preparation_circuit(st, conn)
            gates = adapt.gates_of(qc)
            cg = P.canon(n, P.state_generators(n, gates))
            exact = all(P.member_sign(n, cg, g) == g[2] for g in gens)
            ok = valid and exact
            what = f"get_preparation_circuit({labels}) returned a circuit for an INVALID stabilizer" if not valid else f"preparation circuit for valid {labels} is wrong"
        except Exception as e:
            ok = not valid
            what = f"get_preparation_circuit raised {type(e).__name__} for the VALID stabilizer {labels}"
        out.append(("C08.invalid_input.prep", ok, f"inv-prep:{n}:{conn}:{labels}", what, rp))
        try:
            ro = adapt.gates_of(get_readout_circuit(Stabilizer((R.copy(), S.copy(), ph.copy())), conn))
            ok = all(P.conj_circuit(g, ro)[0] == 0 for g in gens)
            what = f"get_readout_circuit({labels}) returned a circuit that does not diagonalise all given operators (input valid: {valid})"
        except Exception as e:
            ok = not valid
            what = f"get_readout_circuit raised {type(e).__name__} for the VALID stabilizer {labels}"
        out.append(("C08.invalid_input.readout", ok, f"inv-ro:{n}:{conn}:{labels}", what, rp))
        # the validity check as it is reachable from the public constructor: Stabilizer(data, validate=True) accepts exactly the valid inputs (matrix and string form),
        # validate() says the same, and neither modifies its input
        try:
            Stabilizer((R.copy(), S.copy(), ph.copy()), validate=True)
            acc_m = True
        except Exception:
            acc_m = False
        try:
            Stabilizer(list(labels), validate=True)
            acc_s = True
        except Exception:
            acc_s = False
        try:
            v = bool(st.validate())
        except Exception as e:
            v = f"raised {type(e).__name__}"
        out.append(("C08.validate.constructor_flag", acc_m == valid and acc_s == valid and v == valid, f"inv-val:{n}:{labels}",
                    f"{labels} (valid: {valid}): Stabilizer(matrices, validate=True) accepted: {acc_m}, Stabilizer(strings, validate=True) accepted: {acc_s}, validate() = {v}", rp))
    return out


def _signed_group_consistent(n, paulis):
    """(commute, consistent): pairwise commuting, and -I is not in the generated signed group"""
    for i in range(len(paulis)):
        for j in range(i + 1, len(paulis)):
            if not P.commute(paulis[i], paulis[j]):
                return False, False
    basis = []          # (key, pauli) with distinct leading bits
    for p in paulis:
        cur = p
        for k, b in basis:
            key = cur[0] | (cur[1] << n)
            if key & (1 << (k.bit_length() - 1)):
                cur = P.mul(cur, b)
        key = cur[0] | (cur[1] << n)
        if key == 0:
            if cur[2]:
                return True, False
            continue
        basis.append((key, cur))
        basis.sort(key=lambda t: -t[0])
    return True, True


def synth_job(args):
    """the synthesis helper behind the sign step, called directly with every combination of its switches: whatever the switches, a returned circuit prepares a state that
    every given signed operator stabilises, and a list that no state satisfies (anticommuting operators, or -I in the generated group) is always rejected"""
    n, lists = args
    from htstabilizer.rotate_stabilizer_into_state import synth_circuit_from_stabilizers
    out = []
    for labels in lists:
        paulis = [P.from_label(l[0] + l[1:][::-1]) for l in labels]          # labels are in qiskit convention (rightmost character = qubit 0)
        commute, consistent = _signed_group_consistent(n, paulis)
        for red in (False, True):
            for under in (False, True):
                rp = {"n": n, "paulis": labels, "allow_redundant": red, "allow_underconstrained": under,
                      "python": f"synth_circuit_from_stabilizers({labels}, allow_redundant={red}, allow_underconstrained={under})"}
                try:
                    qc = synth_circuit_from_stabilizers(list(labels), allow_redundant=red, allow_underconstrained=under)
                except Exception as e:
                    out.append(("C08.synth.switches", True, "", "", None))          # a rejection is always allowed by this property
                    continue
                gates = adapt.gates_of(qc)
                cg = P.canon(n, P.state_generators(n, gates))
                got = [P.member_sign(n, cg, (x, z, 0)) for x, z, _ in paulis]
                ok = consistent and all(g is not None and g == p[2] for g, p in zip(got, paulis))
                out.append(("C08.synth.switches", ok, f"synth:{n}:{labels}:{red}:{under}",
                            f"synth_circuit_from_stabilizers({labels}, allow_redundant={red}, allow_underconstrained={under}) returned a circuit; the operators "
                            f"{'commute' if commute else 'do not commute'}, {'are satisfiable' if consistent else 'are NOT satisfiable by any state'}; sign bits in the prepared group: {got}", rp))
    return out


def all_pairs(n):
    cases = []
    for bits in range(1 << (2 * n * n)):
        gens = []
        for j in range(n):
            x = (bits >> (2 * n * j)) & ((1 << n) - 1)
            z = (bits >> (2 * n * j + n)) & ((1 << n) - 1)
            gens.append((x, z, (bits >> j) & 1))
        cases.append(gens)
    return cases


def structured_invalid(n, rnd, count):
    """rank-deficient / anticommuting / partly identity generator lists derived from valid groups, plus random ones"""
    cases = []
    groups = list(G.all_groups(min(n, 5)).keys()) if n <= 5 else None
    for _ in range(count):
        if groups is not None:
            rows = list(G.rows_from_key(n, rnd.choice(groups)))
        else:
            orbit_of, reps = G.orbit_table(6)
            rows = G.apply_layer_unsigned(6, [(x, z) for x, z, _ in G.graph_state_gens(6, G.adj_from_id(6, rnd.choice(reps)))], [rnd.randrange(6) for _ in range(6)])
        kind = rnd.randrange(6)
        i, j = rnd.sample(range(n), 2)
        if kind == 0:
            rows[i] = rows[j]                                  # duplicate
        elif kind == 1:
            rows[i] = (rows[i][0] ^ rows[j][0] ^ rows[i][0], rows[i][1] ^ rows[j][1] ^ rows[i][1])   # = rows[j]
            rows[i] = (rows[j][0], rows[j][1])
        elif kind == 2:
            rows[i] = (0, 0)                                   # identity
        elif kind == 3:
            q = rnd.randrange(n)
            rows[i] = (rows[i][0] ^ (1 << q), rows[i][1])      # likely anticommuting
        elif kind == 4:
            rows = [(rnd.randrange(1 << n), rnd.randrange(1 << n)) for _ in range(n)]
        else:
            k = rnd.randrange(n)
            rows[i] = (rows[j][0] ^ rows[k][0], rows[j][1] ^ rows[k][1]) if k != j else (0, 0)   # product of two others
        cases.append([(x, z, rnd.randrange(2)) for x, z in rows])
    return cases


def corruptions(n, rnd, per_class, members=1):
    """one-letter corruptions of valid stabilizers: every class, seeded members, seeded (generator, qubit, letter) edits"""
    cases = []
    orbit_of, reps = G.orbit_table(n)
    for gid in reps:
        rows0 = [(x, z) for x, z, _ in G.graph_state_gens(n, G.adj_from_id(n, gid))]
        for mem in range(members):
            rows = rows0 if mem == 0 else e2e.generator_changes(n, G.apply_layer_unsigned(n, rows0, [rnd.randrange(6) for _ in range(n)]), rnd, 1)[0]
            for _ in range(per_class):
                j, q = rnd.randrange(n), rnd.randrange(n)
                x, z = rows[j]
                cur = ((x >> q) & 1, (z >> q) & 1)
                new = rnd.choice([p for p in ((0, 0), (1, 0), (0, 1), (1, 1)) if p != cur])
                x2 = (x & ~(1 << q)) | (new[0] << q)
                z2 = (z & ~(1 << q)) | (new[1] << q)
                mod = list(rows)
                mod[j] = (x2, z2)
                cases.append([(a, b, rnd.randrange(2)) for a, b in mod])
    return cases


def run(ctx: core.Ctx):
    from htstabilizer.stabilizer import Stabilizer
    import htstabilizer.stabilizer_circuits as sc
    ctx.under_contract(Stabilizer.validate)
    ctx.under_contract(sc._get_preparation_circuit_modulo_phase)
    ctx.selfcheck["oracle_gate_rules_checked_densely"] = P.selftest()
    from .. import prereq
    prereq.pipeline_contracts(ctx)       # soundness for ANY operators rests on the layer-search contracts and on the glue calling exactly that search
    symrun.run(ctx, [C.case_validate(n) for n in range(1, 7)], label="sym")
    for f in [k for k in ctx.families if ".validate." in k]:
        ctx.families[f].name = f
    gate_proxies(ctx)
    t = time.time()
    file_names = sorted({c for _, c, _ in adapt.data_files("stabilizer")} | {c for _, c, _ in adapt.data_files("mub")})
    near = set()
    for nm in set(docs.NAMES) | set(file_names):      # near-literal names: every substring, case / padding variants, doubled, reversed, and single letters
        near |= {nm[i:j] for i in range(len(nm)) for j in range(i + 1, len(nm) + 1)}
        near |= {nm.upper(), nm.lower(), nm.capitalize(), nm + " ", " " + nm, nm + nm, nm[::-1], nm + "s", nm + "\n"}
    names = sorted(set(docs.NAMES + ["", "zzz", "Linear", "ALL"]) | set(file_names) | near)      # every name for which ANY table file exists is probed
    ctx.extra["connectivity_names_probed"] = names
    res = core.pmap(entry_job, [(n, nm) for n in range(1, 9) for nm in names], chunks=1)
    dom = core.pmap(dominance_job, docs.ADVERTISED, chunks=1)
    famd = ctx.family("C08.gate.dominates_lookup", GROUND, "native (call monitor)", "every table-reading entry point passes the gate function with its own (n, connectivity) before its first lookup")
    famd.exhaustive = True
    for r in dom:
        for famname, ok, key, what, rp in r:
            # a different way of validating the configuration is not a violation by itself (the grid above decides); it only withdraws this structural argument
            ctx.record(famd, PROVED if ok else UNKNOWN, rp if famd.total < 2 else None)
            if not ok:
                ctx.undecide(famd, what)
    rnd = random.Random(ctx.seed + 8)
    jobs = []
    p2 = all_pairs(2)
    jobs += [(2, "all", ch) for ch in core.chunked(p2, 16)]
    if not ctx.quick:
        p3 = all_pairs(3)
        for conn in ("all", "linear"):
            jobs += [(3, conn, ch) for ch in core.chunked(p3, 256)]
    nb = len(jobs)
    for n, conn in docs.ADVERTISED:
        if n >= 3:
            jobs.append((n, conn, structured_invalid(n, rnd, (40 if n < 6 else 20) if ctx.quick else 300)))
    for n, conn in docs.ADVERTISED:
        if n in (4, 5) or (n == 6 and not ctx.quick):
            cs_ = corruptions(n, rnd, (6 if n == 5 else 10) if ctx.quick else 30, members=2 if n <= 5 else 1)
            for ch in core.chunked(cs_, 4):
                jobs.append((n, conn, ch))
    res2 = core.pmap(invalid_job, jobs, chunks=1)
    # synthesis helper with all switch combinations: all lists of 1 and 2 signed 2-qubit operators (identity included), seeded lists of 3; seeded 3-qubit lists of 1..4
    letters2 = ["".join(t) for t in itertools.product("IXYZ", repeat=2)]
    ops2 = [sg + l for sg in "+-" for l in letters2]
    sl = [[a] for a in ops2] + [[a, b] for a in ops2 for b in ops2] + [[rnd.choice(ops2) for _ in range(3)] for _ in range(300 if ctx.quick else 3000)]
    ops3 = [sg + "".join(t) for sg in "+-" for t in itertools.product("IXYZ", repeat=3)]
    sl3 = [[rnd.choice(ops3) for _ in range(rnd.randrange(1, 5))] for _ in range(600 if ctx.quick else 6000)]
    fams = ctx.family("C08.synth.switches", GROUND, "native+oracle", "synth_circuit_from_stabilizers under every combination of allow_redundant / allow_underconstrained: a returned "
                      "circuit satisfies every given signed operator; unsatisfiable lists are always rejected")
    fams.exhaustive = True
    fams.domain = "ALL lists of one and two signed 2-qubit Pauli strings (identity included) x 4 switch combinations; seeded lists of three 2-qubit and of 1..4 3-qubit strings"
    for r in core.pmap(synth_job, [(2, ch) for ch in core.chunked(sl, 64)] + [(3, ch) for ch in core.chunked(sl3, 64)], chunks=1):
        for famname, ok, key, what, rp in r:
            ctx.record(fams, PROVED if ok else REFUTED, rp if fams.total < 2 and rp else None)
            if not ok:
                ctx.violate(fams, key, what, rp)
    for r in res:
        for famname, ok, key, what, rp in r:
            fam = ctx.family(famname, GROUND, "native")
            fam.exhaustive = True
            fam.domain = "10 entry points x n in 1..8 x all names (documented names, junk names, every name with a table file)" if "entrypoints" in famname else "8 table-reading entry points x 20 advertised configurations"
            ctx.record(fam, PROVED if ok else REFUTED, rp if fam.total < 2 else None)
            if not ok:
                ctx.violate(fam, key, what, rp)
    for idx, r in enumerate(res2):
        for famname, ok, key, what, rp in r:
            bounded = idx >= nb
            fam = ctx.family(famname + (".structured_seeded" if bounded else ".all_matrix_pairs"), BOUNDED if bounded else GROUND, "native+oracle")
            fam.exhaustive = not bounded
            if not bounded:
                fam.domain = "ALL 2^(2n^2) X/Z matrix pairs (sign vector varied with the index) for n=2" + ("" if ctx.quick else " and n=3 on both connectivities")
            ctx.record(fam, PROVED if ok else REFUTED, rp if fam.total < 2 else None)
            if not ok:
                ctx.violate(fam, key, what, rp)
    ctx.extra["ground_time_s"] = round(time.time() - t, 2)
    ctx.trust(*symrun.PYVC_TRUST)
    ctx.trust("oracle validity test / tableau simulator")
    ctx.assume(*symrun.PYVC_ASSUMPTIONS)
    ctx.assume("gate proxies: an outcome obtained on a proxy holds for every value it represents because the proxy offers only comparisons with the function's own literals",
               "invalid inputs for n>=3 (n>=4 thorough): structured + seeded (bounded); the general statement is the lemma over C16 soundness (no validity precondition) + validate.value")
    return core.finish(ctx, "proof", "SYM validate contract (pyvc, modular), representation-hiding proxies for the configuration gate, exhaustive entry-point grid and all n=2 inputs",
                       "Validity check proved for all matrices n<=6; gate for all ints/strings; all 2^8 two-qubit inputs and the full entry-point grid.", "./check C08 --tier " + ctx.tier)


def replay(data):
    inp = data["input"]
    if "entry_point" in inp:
        bad = [r for r in entry_job((inp["n"], inp["connectivity"])) if not r[1] and r[2] == data["key"]]
    elif "allow_redundant" in inp:
        bad = [r for r in synth_job((inp["n"], [inp["paulis"]])) if not r[1] and r[2] == data["key"]]
    elif "paulis" in inp:
        bad = [r for r in invalid_job((inp["n"], inp["connectivity"], [[P.from_label(l) for l in inp["paulis"]]])) if not r[1]]
    else:
        print(inp)
        return 1
    for r in bad:
        print("REPRODUCED:", r[3])
    return 1 if bad else 0
