"""C10 - full-state tomography reconstructs every state exactly from exact statistics.   (technique: see hv/tomo.py)

Contracts:
  tomography.full_state_tomography_circuits(prep, conn)  post: 2^n+1 circuits = prep ; MUB readout circuit j ; measure i -> i
  FullStateTomographyFitter.expectation_values()        post: exactly 4^n entries; for every circuit j and every s != 0 the unsigned pull-back P of Z^s
                                                        through readout circuit j is a key with value sigma * sum_b (-1)^{s.b} c_{j,b} / sum_b c_{j,b};
                                                        identity = 1          => value = Tr(rho P) for EVERY state (M7; symbolic counts)
  _compute_density_matrix_from_pauli_expectation_values(v)   post: 2^-n sum_P v_P P.   The function is linear in v, so it is checked on the basis
                                                        vectors v = e_P for every P (complete for a linear map; floats treated as reals, tol 1e-12)
  => rho = 2^-n sum_P Tr(rho P) P  (M7) is reconstructed exactly.
Domain: all 20 configurations; every circuit; every outcome mask; all states.
"""
from __future__ import annotations
import time
import numpy as np
from .. import core, adapt, tomo
from ..core import SYM, GROUND, PROVED, REFUTED
from ..oracle import pauli as P, docs
from .c12 import measure_map


def dense_pauli(n, x, z):
    I2 = np.eye(2, dtype=complex)
    X = np.array([[0, 1], [1, 0]], dtype=complex)
    Z = np.array([[1, 0], [0, -1]], dtype=complex)
    Y = 1j * X @ Z
    m = np.eye(1, dtype=complex)
    for q in range(n - 1, -1, -1):
        m = np.kron(m, [I2, X, Z, Y][((x >> q) & 1) | (((z >> q) & 1) << 1)])
    return m


def config_job(cfg):
    n, conn = cfg
    from qiskit import QuantumCircuit
    import htstabilizer.tomography as T
    out = []
    rp = {"n": n, "connectivity": conn}
    circs = T.full_state_tomography_circuits(QuantumCircuit(n), conn)
    ros = [adapt.gates_of(c.metadata["readout info"].circuit) for c in circs]
    ok_asm = len(circs) == 2 ** n + 1 and all([g for g in adapt.gates_of(c) if g[0] not in P.IGNORED] == ro and measure_map(c) == [(i, i) for i in range(n)]
                                              and c.metadata["readout info"].qubits is None for c, ro in zip(circs, ros))
    out.append(("C10.circuit_assembly", ok_asm, f"asm:{n}:{conn}", f"{n}-{conn}: tomography circuits are not prep + MUB readout + measure i->i", rp))
    import random
    rnd = random.Random(1000 * n + len(conn))
    specs = [(ro, n, None, True) for ro in ros]

    def symbolic():
        counts = [tomo.symbolic_counts(n, f"c{j}_") for j in range(len(circs))]
        probs = []
        vals = T.FullStateTomographyFitter(tomo.FakeResult(counts), circs).expectation_values()
        if len(vals) != 4 ** n:
            probs.append(f"{len(vals)} Paulis reported, expected {4 ** n}")
        per = {j: {} for j in range(len(circs))}
        ident = None
        for k, v in vals.items():
            if isinstance(v, tomo.Frac):
                per[int(next(iter(v.den.c)).split("_")[0][1:])][k] = v
            else:
                ident = (k, v)
        for j in range(len(circs)):
            d = dict(per[j])
            if ident is not None:
                d[ident[0]] = ident[1]
            pj = tomo.check_fitter_dict(d, ros[j], n, n, None, f"c{j}_", True)
            out.append(("C10.fitter.values", not pj, f"fit:{n}:{conn}:{j}", f"{n}-{conn} tomography circuit {j}: {pj[:3]}", dict(rp, circuit=j)))
        return probs

    ok, probs = tomo.symbolic_or_withdraw(symbolic, lambda: T.FullStateTomographyFitter(tomo.FakeResult(tomo.dense_concrete(n, len(circs), rnd)), circs).expectation_values())
    out.append(("C10.fitter.all_paulis_once", ok, f"all:{n}:{conn}", f"{n}-{conn}: {probs[:3]}", rp))
    # the same value contract on concrete results: deterministic (single-outcome) results for every outcome (n<=4), two-outcome results, dense counts, float probabilities
    for tag, cl in tomo.concrete_sets(n, len(circs), rnd, all_deltas=n <= 4):
        try:
            vals = T.FullStateTomographyFitter(tomo.FakeResult(cl), circs).expectation_values()
            pc = tomo.check_concrete(vals, specs, cl, n)
        except Exception as e:
            pc = [f"fitter raised {type(e).__name__}: {e}"]
        out.append(("C10.fitter.values.concrete_results", not pc, f"conc:{n}:{conn}:{tag}", f"{n}-{conn}, {tag}: {pc[:3]}",
                    dict(rp, counts=tag, first_counts=[{k: v for k, v in list(c.items())[:4]} for c in cl[:3]])))
    return out


def density_job(n):
    import htstabilizer.tomography as T
    from qiskit.quantum_info import Pauli
    out = []
    keys = []
    for x in range(1 << n):
        for z in range(1 << n):
            keys.append((x, z, Pauli((np.array([(z >> i) & 1 for i in range(n)], dtype=bool), np.array([(x >> i) & 1 for i in range(n)], dtype=bool)))))
    zero = {k: 0.0 for _, _, k in keys}
    bad = None
    for x, z, k in keys:
        v = dict(zero)
        v[k] = 1.0
        dm = T._compute_density_matrix_from_pauli_expectation_values(v)
        want = dense_pauli(n, x, z) / 2 ** n
        if dm.shape != want.shape or not np.allclose(dm, want, atol=1e-12):
            bad = (x, z)
            break
    out.append(("C10.density.post", bad is None, f"dens:{n}", f"density matrix from e_P for P={P.to_label(n, (bad or (0, 0)) + (0,), False)} on {n} qubits is not 2^-n P", {"n": n}))
    return out


def inversion_job(args):
    """contract of the density_matrix() methods for ARBITRARY result objects: density_matrix() = 2^-n sum_P expectation_values()[P] * P.
    Count data: for every circuit k a delta distribution on circuit k with (a) uniform and (b) delta distributions on the other circuits, plus seeded random counts."""
    n, conn, seed, ks = args
    import random
    from qiskit import QuantumCircuit
    import htstabilizer.tomography as T
    rnd = random.Random(seed)
    circs = T.full_state_tomography_circuits(QuantumCircuit(n), conn)
    keys = [s for _, s in tomo.outcome_keys(n)]
    out = []

    def check(counts, tag):
        fit = T.FullStateTomographyFitter(tomo.FakeResult(counts), circs)
        ev = fit.expectation_values()
        dm = fit.density_matrix()
        want = np.zeros((2 ** n, 2 ** n), dtype=complex)
        for pk, v in ev.items():
            x, z, _ = tomo.pauli_to_xz(pk)
            want += dense_pauli(n, x, z) * v
        want /= 2 ** n
        ok = dm.shape == want.shape and np.allclose(dm, want, atol=1e-9)
        sm = T.StabilizerMeasurementFitter(tomo.FakeResult(counts[0]), circs[0])
        ev0 = sm.expectation_values()
        w0 = sum(dense_pauli(n, *tomo.pauli_to_xz(pk)[:2]) * v for pk, v in ev0.items()) / 2 ** n
        ok = ok and np.allclose(sm.density_matrix(), w0, atol=1e-9)
        out.append(("C10.density.equals_inversion_of_values", ok, f"inv:{n}:{conn}:{tag}",
                    f"{n}-{conn}, counts {tag}: density_matrix() differs from 2^-n sum_P expectation_values()[P] P (max deviation {np.abs(dm - want).max():.2e})",
                    {"n": n, "connectivity": conn, "counts": tag}))

    uniform = {s: 10 for s in keys}
    for k in ks:
        b = rnd.choice(keys)
        check([({b: 1000} if j == k else dict(uniform)) for j in range(len(circs))], f"delta on circuit {k} outcome {b}, uniform elsewhere")
        check([({b: 1000} if j == k else {rnd.choice(keys): 7, rnd.choice(keys): 3}) for j in range(len(circs))], f"delta on circuit {k} outcome {b}, two-point elsewhere")
    check([{s: rnd.randrange(1, 50) for s in keys} for _ in circs], "seeded random counts")
    return out


def run(ctx: core.Ctx):
    import htstabilizer.tomography as T
    for f in (T.full_state_tomography_circuits, T.FullStateTomographyFitter.expectation_values, T.StabilizerMeasurementFitter.expectation_values,
              T.CircuitResult.__init__, T._compute_expectation_value, T.z_pauli_from_bitstring, T._compute_density_matrix_from_pauli_expectation_values):
        ctx.under_contract(f)
    ctx.selfcheck["oracle_gate_rules_checked_densely"] = P.selftest()
    from ..contracts import pipeline as _pl
    from .. import symrun as _sr
    _sr.run(ctx, _pl.tomography_glue_tasks(), label="tomography-glue")      # density_matrix() = linear inversion of expectation_values(), for every input
    t = time.time()
    for res in core.pmap(config_job, docs.ADVERTISED, chunks=1):
        for famname, ok, key, what, rp in res:
            if famname.endswith("concrete_results"):
                fam = ctx.family(famname, GROUND, "native+oracle", "value contract on concrete results: every deterministic outcome (n<=4; 8 outcomes for n=5,6), two-outcome results, "
                                 "dense integer counts, dense float probabilities - outcome keys that never occurred are ABSENT from the dictionaries")
                fam.exhaustive = True
                fam.domain = "20 configurations x the listed concrete results"
            else:
                fam = ctx.family(famname, SYM, "native-exec+linear-normal-form+oracle")
                fam.exhaustive = True
                fam.domain = "20 configurations x all 2^n+1 circuits x all outcome masks; ALL states via symbolic counts"
            if ok is None:
                ctx.record(fam, core.UNKNOWN, rp)
                ctx.undecide(fam, what)
                continue
            ctx.record(fam, PROVED if ok else REFUTED, rp if fam.total < 2 else None)
            if not ok:
                ctx.violate(fam, key, what, rp)
    fam = ctx.family("C10.density.post", GROUND, "native+dense-oracle", "linear map checked on every basis vector e_P")
    fam.exhaustive = True
    fam.domain = "all 4^n Paulis for n = 2..4 (quick) / 2..5 (thorough)"
    for res in core.pmap(density_job, [2, 3, 4] if ctx.quick else [2, 3, 4, 5], chunks=1):
        for famname, ok, key, what, rp in res:
            ctx.record(fam, PROVED if ok else REFUTED, rp)
            if not ok:
                ctx.violate(fam, key, what, rp)
    import random as _r
    rnd = _r.Random(ctx.seed + 10)
    ij = []
    for n, conn in docs.ADVERTISED:
        if n <= 3 or (n == 4 and (not ctx.quick or conn in ("all", "star"))) or (n == 5 and not ctx.quick and conn in ("all", "T")):
            ks = list(range(2 ** n + 1))
            for ch in core.chunked(ks, 4):
                ij.append((n, conn, rnd.randrange(1 << 30), ch))
        elif n >= 5 and conn in ("linear", "ladder"):
            ij.append((n, conn, rnd.randrange(1 << 30), [0, 2 ** n] if ctx.quick or n == 6 else [0, 7, 2 ** n]))
    fam = ctx.family("C10.density.equals_inversion_of_values", core.BOUNDED, "native+dense-oracle", "density_matrix() = linear inversion of expectation_values() on structured count data")
    fam.exhaustive = False
    for res in core.pmap(inversion_job, ij, chunks=1):
        for famname, ok, key, what, rp in res:
            ctx.record(fam, PROVED if ok else REFUTED, rp if fam.total < 2 else None)
            if not ok:
                ctx.violate(fam, key, what, rp)
    ctx.extra["ground_time_s"] = round(time.time() - t, 2)
    tomo.prep_variants(ctx, "C10", False)
    ctx.trust("oracle tableau simulator, dense Pauli matrices", "M7 (rho = 2^-n sum_P Tr(rho P) P; pull-back formula)", "Q2/Q5/Q6 as in C12", "C09.partition (all 4^n Paulis occur) is re-derived here through the 4^n count")
    ctx.assume("exact statistics; floating point treated as real arithmetic", "density reconstruction for n=6 (5 in quick) not evaluated (linear map, same code path)")
    return core.finish(ctx, "proof", "real fitter executed on symbolic counts (exact linear forms) vs oracle pull-back; density map checked on a basis",
                       "All 4^n expectation values for every configuration, for all states by linearity.", "./check C10 --tier " + ctx.tier)


def replay(data):
    if "variant" in data.get("input", {}):
        return tomo.replay_prep_variant(data["input"])
    inp = data["input"]
    if "counts" in inp and "first_counts" not in inp:
        print("regenerate with ./check C10 (seeded count data):", inp)
        return 1
    if "connectivity" in inp:
        bad = [r for r in config_job((inp["n"], inp["connectivity"])) if r[1] is False]
    else:
        bad = [r for r in density_job(inp["n"]) if not r[1]]
    for r in bad:
        print("REPRODUCED:", r[3])
    return 1 if bad else 0
