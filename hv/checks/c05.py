"""C05 - delivered circuits use the minimum possible number of two-qubit gates.

Spec function (oracle, independent of the library):  mincost(n, coupling edges)[orbit] = breadth-first distance of the LC
orbit from the product orbit in the quotient graph whose steps are "arbitrary single-qubit Cliffords on the two qubits,
then CZ on a coupled pair".  By M8 this is the least number of CX/CZ (SWAP = 3 CX) over ALL circuits of single-qubit
Cliffords and CX/CZ on coupled pairs that prepare a state of that class.

Contracts, discharged on the complete finite domain (every class id of every advertised configuration):
  C05.table_minimal[n,c,id]      cost recorded for (n, c, id) == mincost of the id's orbit
  C05.delivered_minimal[n,c,id]  the circuit returned by get_preparation_circuit for the class representative has exactly
                                 mincost two-qubit gates (links the table to the delivered object; all other states of the
                                 class get the same count by C04)
  C05.product_free[n,c]          the product class costs 0
On a gap the oracle's witness circuit is attached, re-simulated, checked against the coupling graph and classified with the
library's own classifier.
"""
from __future__ import annotations
import time
from .. import core, adapt
from ..core import GROUND, PROVED, REFUTED
from ..oracle import pauli as P, graphs as G, docs


def config_job(cfg):
    n, conn = cfg
    import htstabilizer.circuit_lookup as cl
    import htstabilizer.lc_classes as lcc
    from htstabilizer.stabilizer import Stabilizer
    from htstabilizer.stabilizer_circuits import get_preparation_circuit
    from htstabilizer.graph import Graph
    LC = {2: lcc.LCClass2, 3: lcc.LCClass3, 4: lcc.LCClass4, 5: lcc.LCClass5, 6: lcc.LCClass6}[n]
    edges = docs.coupling_edges(n, conn)
    dist, wit = G.mincost(n, edges)
    orbit_of, reps = G.orbit_table(n)
    out = []
    for k in range(docs.CLASS_COUNT[n]):
        rep = LC(k).get_graph()
        adj = tuple(sum((int(rep.adjacency_matrix[i, j]) & 1) << j for j in range(n)) for i in range(n))
        orb = orbit_of[G.id_from_adj(n, adj)]
        opt = dist[orb]
        info = cl.stabilizer_circuit_lookup(n, conn, k)
        gates = adapt.gates_of(info.parse_circuit())
        tcost = max(info.cost, P.two_qubit_cost(gates))
        witness = None
        if opt is None:
            out.append(("C05.table_minimal", False, f"{n}:{conn}:{k}:unreachable", f"class {k} not reachable on {n}-{conn} in the oracle (oracle defect?)", None))
            continue
        if tcost != opt:
            w = wit[orb]
            wpairs_ok = all(tuple(sorted(q)) in edges for nm, q in w if len(q) == 2)
            from qiskit import QuantumCircuit
            qc = QuantumCircuit(n)
            for nm, q in w:
                getattr(qc, nm)(*q)
            wid = lcc.determine_lc_class(Stabilizer(qc)).id()
            witness = {"circuit": " ".join(f"{nm}{','.join(map(str, q))}" for nm, q in w), "two_qubit_gates": P.two_qubit_cost(w),
                       "respects_coupling": wpairs_ok, "library_classifies_witness_state_as": wid,
                       "witness_valid": bool(wpairs_ok and wid == k and P.two_qubit_cost(w) == opt)}
        out.append(("C05.table_minimal", tcost == opt, f"n={n} conn={conn} id={k} table={tcost} optimum={opt}",
                    f"n={n} connectivity={conn} class id={k}: table/delivered cost {tcost}, optimum {opt}"
                    + ("" if tcost >= opt else " (table BELOW the oracle optimum: oracle or metadata wrong)"),
                    {"n": n, "connectivity": conn, "class_id": k, "table_cost": tcost, "optimum": opt, "witness": witness}))
        st = Stabilizer(rep)
        dgates = adapt.gates_of(get_preparation_circuit(st, conn))
        dcost = P.two_qubit_cost(dgates)
        out.append(("C05.delivered_minimal", dcost == opt, f"n={n} conn={conn} id={k} table={dcost} optimum={opt}",
                    f"n={n} connectivity={conn} class id={k}: delivered preparation circuit has {dcost} two-qubit gates, optimum {opt}",
                    {"n": n, "connectivity": conn, "class_id": k, "delivered_cost": dcost, "optimum": opt, "witness": witness}))
        if k == 0:
            okp = dcost == 0 and tcost == 0 and opt == 0
            out.append(("C05.product_free", okp, f"n={n} conn={conn} id=0 product table={tcost} optimum=0",
                        f"n={n} connectivity={conn}: product state prepared with {dcost} two-qubit gates (table cost {tcost})",
                        {"n": n, "connectivity": conn, "class_id": 0, "table_cost": tcost}))
    return out, max(d for d in dist if d is not None)


def run(ctx: core.Ctx):
    import htstabilizer.circuit_lookup as cl
    from htstabilizer.stabilizer_circuits import get_preparation_circuit
    ctx.under_contract(cl.stabilizer_circuit_lookup)
    ctx.under_contract(cl.StabilizerCircuitInfo)
    ctx.under_contract(get_preparation_circuit)
    ctx.selfcheck["oracle_gate_rules_checked_densely"] = P.selftest()
    ctx.selfcheck["oracle_graph_selftest"] = G.selftest()
    # oracle self-check: axis-only local choices give the same distances as all six local Cliffords (n <= 4, thorough: 5)
    same = True
    for n, conn in [c for c in docs.ADVERTISED if c[0] <= (4 if ctx.quick else 5)]:
        e = docs.coupling_edges(n, conn)
        same = same and G.mincost(n, e)[0] == G.mincost(n, e, full_local=True)[0]
    if not same:
        raise core.CheckerError("oracle mincost: axis-reduced and full local Clifford searches disagree")
    ctx.selfcheck["mincost_axis_vs_full_local_agree"] = True
    from .. import prereq
    prereq.pipeline_contracts(ctx)       # the delivered circuit IS the table circuit plus single-qubit gates for every input (glue terms, layer-search segments)
    t = time.time()
    results = core.pmap(config_job, docs.ADVERTISED, chunks=1)
    maxd = {}
    for cfg, (res, md) in zip(docs.ADVERTISED, results):
        maxd[f"{cfg[0]}-{cfg[1]}"] = md
        for famname, ok, key, what, rp in res:
            fam = ctx.family(famname, GROUND, "native+oracle")
            fam.exhaustive = True
            fam.domain = "every class id of the 20 advertised configurations (7326)"
            ctx.record(fam, PROVED if ok else REFUTED, {"n": cfg[0], "connectivity": cfg[1], "case": key} if not ok or key.endswith("id=0") else None)
            if not ok:
                ctx.violate(fam, key.replace(" table=", " cost="), what, rp, True)
    # compressed circuits are delivered circuits too: compress_preparation_circuit(c) must cost what the library's circuit for the class of c|0> costs (the table value, whose
    # minimality is the obligation above) - in particular never more because the INPUT was wasteful (repeated gates, routing SWAPs, every register layout)
    from .c07 import circuit_jobs, eval_circuit
    cj = [j for j in circuit_jobs(ctx) if len(j) > 3 or len(j[2]) > 2 or j[0] == 2]
    for r, j in zip(core.pmap(eval_circuit, cj), cj):
        small = len(j[2]) <= 2 and j[0] <= 3
        for famname, ok, key, what, rp in r:
            if famname != "C07.cost_of_class":
                continue
            fam = ctx.family("C05.compressed_cost_eq_class_cost" + (".le2gates_le3qubits" if small else ".seeded_circuits"), GROUND if small else core.BOUNDED, "native+oracle",
                             "two-qubit count of the compressed circuit = table cost of the class of circuit|0>")
            fam.exhaustive = small
            ctx.record(fam, PROVED if ok else REFUTED, {"circuit": rp["circuit"][:60]} if fam.total < 2 else None)
            if not ok:
                ctx.violate(fam, key[:300].replace("C07.cost_of_class", "C05.compressed"), what, rp)
    ctx.extra["max_optimum_per_configuration"] = maxd
    ctx.extra["ground_time_s"] = round(time.time() - t, 2)
    ctx.trust("oracle tableau simulator, LC-orbit table, stabilizer->graph reduction and quotient-graph BFS (hv/oracle)",
              "M8: least number of CX/CZ gates on coupled pairs = BFS distance in the LC-quotient graph (SWAP = 3 CX); the local-Clifford "
              "choices before each CZ are exhausted by the three axis choices per qubit (cross-checked against all six for n<=4)")
    ctx.assume("class id k denotes the LC orbit of LCClass<n>(k).get_graph() (C06)", "delivered cost for non-representative states of a class equals the representative's (C04)")
    return core.finish(ctx, "proof", "table/delivered cost compared with a spec function (shortest path in the LC-quotient graph) on the complete finite domain",
                       "For every class id of every advertised configuration the recorded and the delivered two-qubit count are compared with the oracle's optimum.",
                       "./check C05 --tier " + ctx.tier)


def replay(data):
    inp = data["input"]
    if "job" in inp and "circuit" in inp:
        from .c07 import eval_circuit
        n, conn, gl, layout = inp["job"]
        bad = [r for r in eval_circuit((n, conn, [(nm, list(q)) for nm, q in gl], layout)) if not r[1] and r[0] == "C07.cost_of_class"]
        for r in bad:
            print("REPRODUCED:", r[3])
        return 1 if bad else 0
    n, conn, k = inp["n"], inp["connectivity"], inp["class_id"]
    res, _ = config_job((n, conn))
    hit = [r for r in res if not r[1] and f"id={k} " in r[2] + " "]
    for r in hit:
        print("REPRODUCED:", r[3], r[4].get("witness"))
    return 1 if hit else 0
