"""C15 - group predicates agree with the mathematical definitions.

SYM (contracts in hv/contracts/stab.py, VCs from the real Stabilizer methods, all R/S bit matrices, n = 1..6):
  C15.expand.{shape,X,Z}         column i of the expansion = XOR of the generator columns in bits(i)
  C15.is_qubit_entangled.value   True <=> two generators carry different non-identity Paulis on q           (every q)
  C15.is_equivalent_mod_phase.value   True <=> all cross symplectic products vanish; False for different n
  C15.__eq__.value
  C15.lemma.entangled_recombination   spec-level lemma (z3): not entangled(S) => not entangled(S*M) for EVERY n x n matrix M; applied to an
                                 invertible M and M^-1 this makes the predicate independent of the generating set without a rank argument
Property sentence: for valid stabilizers, cross-commuting <=> same group mod signs, and "the restricted span on q has dimension <= 1" <=>
"+-P_q is in the group" <=> product state on q - both by M1 (an n-dimensional isotropic subspace equals its symplectic complement).
"each element exactly once": element i xor element j = element (i xor j) != 0 by independence (corollary of expand.post).
Because M1 is trusted, an independent GROUND cross-check at the level of the property sentence:
  C15.ground.entangled[n,group,q]   is_qubit_entangled == "no group element has support exactly {q}"   (oracle, all 2^n elements), ALL groups n<=4 (5 thorough),
                                    under seeded generator changes
  C15.ground.equiv[pair]            is_equivalent_mod_phase == equality of canonical forms, ALL pairs of groups n<=3, orbit-stratified pairs n=4..6
  C15.ground.expand_distinct        the 2^n expanded elements are pairwise different and are exactly the oracle's group elements
"""
from __future__ import annotations
import itertools, random, time
import numpy as np
from .. import core, symrun, adapt, e2e
from ..core import SYM, GROUND, BOUNDED, PROVED, REFUTED
from ..contracts import stab as C
from ..oracle import pauli as P, graphs as G
from ..pyvc import expr as X, sym as S
from .. import speclib as L


def lemma_recombination(n):
    """not entangled(R,S) => not entangled(R*M, S*M) for every M (spec level)"""
    def task():
        t0 = time.time()
        X.reset()
        R = S.fresh_bits("r", (n, n))
        Sm = S.fresh_bits("s", (n, n))
        M = S.fresh_bits("m", (n, n))
        R2 = L.gf2_matmul(R, M)
        S2 = L.gf2_matmul(Sm, M)
        recs = []
        for q in range(n):
            goal = X.Implies(X.Not(C.spec_entangled(R, Sm, q, n)), X.Not(C.spec_entangled(R2, S2, q, n)))
            v = X.prove([], goal, timeout_s=300)
            recs.append((f"lemma.entangled_recombination[n={n},q={q}]", v.status, v.backend, round(v.time, 3), v.info, None, None))
        return recs, {"t": round(time.time() - t0, 2)}
    return task


def ground_groups(args):
    n, items, seed = args
    from htstabilizer.stabilizer import Stabilizer
    rnd = random.Random(seed)
    out = []
    for key, orb in items:
        rows = G.rows_from_key(n, key)
        rows = e2e.generator_changes(n, rows, rnd, 1)[0] if rnd.random() < 0.7 else rows
        gens = [(x, z, rnd.randrange(2)) for x, z in rows]
        st = e2e.mk_stabilizer(n, gens)
        els = P.group_elements(n, gens)
        supp = {(x | z) for x, z, _ in els}
        rp = {"n": n, "paulis": [P.to_label(n, g) for g in gens]}
        for q in range(n):
            want = (1 << q) not in supp
            got = bool(st.is_qubit_entangled(q))
            out.append(("C15.ground.entangled", got == want, f"ent:{n}:{rp['paulis']}:{q}", f"is_qubit_entangled({q}) = {got} for {rp['paulis']}, but "
                        f"{'no ' if want else 'a '}group element has support exactly on qubit {q}", rp))
        Xm, Zm = st.expand()
        cols = [(sum((int(Xm[r, i]) & 1) << r for r in range(n)), sum((int(Zm[r, i]) & 1) << r for r in range(n))) for i in range(1 << n)]
        ok = len(set(cols)) == (1 << n) and set(cols) == {(x, z) for x, z, _ in els} and cols[0] == (0, 0)
        out.append(("C15.ground.expand_distinct", ok, f"exp:{n}:{rp['paulis']}", f"expand() of {rp['paulis']} does not list each of the 2^n group elements exactly once", rp))
    return out


def ground_pairs(args):
    n, pairs, seed = args
    rnd = random.Random(seed)
    out = []
    for k1, k2 in pairs:
        r1 = e2e.generator_changes(n, G.rows_from_key(n, k1), rnd, 1)[0]
        r2 = e2e.generator_changes(n, G.rows_from_key(n, k2), rnd, 1)[0]
        a = e2e.mk_stabilizer(n, [(x, z, rnd.randrange(2)) for x, z in r1])
        b = e2e.mk_stabilizer(n, [(x, z, rnd.randrange(2)) for x, z in r2])
        got = bool(a.is_equivalent_mod_phase(b))
        want = k1 == k2
        rp = {"n": n, "paulis": a.to_list(), "other": b.to_list()}
        out.append(("C15.ground.equiv", got == want, f"eqv:{n}:{rp['paulis']}:{rp['other']}", f"is_equivalent_mod_phase({rp['paulis']}, {rp['other']}) = {got}, groups equal mod signs: {want}", rp))
    return out


def run(ctx: core.Ctx):
    from htstabilizer.stabilizer import Stabilizer
    for f in (Stabilizer.expand, Stabilizer.is_qubit_entangled, Stabilizer.is_equivalent_mod_phase, Stabilizer.__eq__):
        ctx.under_contract(f)
    tasks = []
    for n in range(1, 7):
        tasks.append(C.case_expand(n))
        tasks += [C.case_entangled(n, q) for q in range(n)]
        tasks.append(C.case_equiv(n))
        tasks.append(C.case_eq(n))
    tasks += [C.case_equiv_size_mismatch(2, 3), C.case_equiv_size_mismatch(4, 3)]
    tasks += [lemma_recombination(n) for n in range(1, 5 if ctx.quick else 7)]
    symrun.purity(ctx, (Stabilizer.expand, Stabilizer.is_qubit_entangled, Stabilizer.is_equivalent_mod_phase, Stabilizer.__eq__, Stabilizer.validate), "C15.frame.no_module_state")
    symrun.run(ctx, tasks, label="sym")
    t = time.time()
    rnd = random.Random(ctx.seed + 15)
    jobs = []
    for n in range(2, 5 if ctx.quick else 6):
        items = list(G.all_groups(n).items())
        jobs += [(ground_groups, (n, ch, rnd.randrange(1 << 30))) for ch in core.chunked(items, 16 if n < 5 else 64)]
    for n in (2, 3):
        keys = list(G.all_groups(n).keys())
        pairs = list(itertools.product(keys, keys))
        jobs += [(ground_pairs, (n, ch, rnd.randrange(1 << 30))) for ch in core.chunked(pairs, 16)]
    strat = []
    for n in (4, 5, 6):
        if n <= 5:
            groups = G.all_groups(n)
            by_orb = {}
            for k, o in groups.items():
                by_orb.setdefault(o, []).append(k)
            reps = [rnd.choice(v) for v in by_orb.values()]
        else:
            orbit_of, rep_ids = G.orbit_table(6)
            reps = [G.canon_keys(6, G.apply_layer_unsigned(6, [(x, z) for x, z, _ in G.graph_state_gens(6, G.adj_from_id(6, g))], [rnd.randrange(6) for _ in range(6)])) for g in rep_ids]
        sel = reps if len(reps) <= 100 else rnd.sample(reps, 60 if ctx.quick else 200)
        pairs = [(a, b) for a in sel for b in sel if a == b or rnd.random() < (0.2 if ctx.quick else 1.0)]
        strat += [(ground_pairs, (n, ch, rnd.randrange(1 << 30))) for ch in core.chunked(pairs, 16)]
    # near-miss pairs: groups that differ by ONE single-qubit Clifford / one CZ / one qubit swap (equal on all other qubits) - the pairs an approximate or lossy comparison confuses
    def near_miss(n, key):
        rows = G.rows_from_key(n, key)
        for q in range(n):
            for c in range(1, 6):
                yield G.canon_keys(n, G.apply_layer_unsigned(n, rows, [c if i == q else 0 for i in range(n)]))
        for q in range(n):
            for nm, qs in (("cz", [q, (q + 1) % n]), ("swap", [q, (q + 1) % n])):
                yield G.canon_keys(n, [P.conj_gate((x, z, 0), nm, qs)[:2] for x, z in rows])

    for n in (4, 5, 6):
        if n <= 5:
            by_orb = {}
            for k, o in G.all_groups(n).items():
                by_orb.setdefault(o, []).append(k)
            reps = [rnd.choice(v) for v in by_orb.values()]
        else:
            rep_ids = G.orbit_table(6)[1]
            reps = [G.canon_keys(6, G.apply_layer_unsigned(6, [(x, z) for x, z, _ in G.graph_state_gens(6, G.adj_from_id(6, g))], [rnd.randrange(6) for _ in range(6)])) for g in rep_ids]
        sel = reps if len(reps) <= 100 else rnd.sample(reps, 40 if ctx.quick else 400)
        pairs = [(a, b) for a in sel for b in near_miss(n, a)]
        strat += [(ground_pairs, (n, ch, rnd.randrange(1 << 30))) for ch in core.chunked(pairs, 64)]
    # edited objects: behaviour must follow the data the object holds now (systematic single-qubit / CZ edits on every qubit, every class)
    from .. import history
    hj = []
    for n in range(2, 7):
        its = history.items_for(n, rnd)
        if n == 6 and ctx.quick:
            its = rnd.sample(its, 150)
        hj += [(history.edited_job, (n, ch, rnd.randrange(1 << 30), "expand")) for ch in core.chunked(its, 8 if n < 6 else 32)]
    res = core.pmap(lambda j: j[0](j[1]), jobs + strat + hj, chunks=1)
    nj = len(jobs)
    nh = len(jobs) + len(strat)
    for idx, r in enumerate(res):
        for famname, ok, key, what, rp in r:
            bounded = idx >= nj
            if idx >= nh:
                famname = "C15." + famname
                fam = ctx.family(famname, BOUNDED, "native", "an object edited through its public attributes behaves like a fresh object with the same data")
                fam.exhaustive = False
                ctx.record(fam, PROVED if ok else REFUTED, rp if fam.total < 2 else None)
                if not ok:
                    ctx.violate(fam, key, what, rp)
                continue
            fam = ctx.family(famname + (".stratified_n4_6" if bounded else ""), BOUNDED if bounded else GROUND, "native+oracle")
            fam.exhaustive = not bounded
            ctx.record(fam, PROVED if ok else REFUTED, rp if fam.total < 2 else None)
            if not ok:
                ctx.violate(fam, key, what, rp)
    ctx.extra["ground_time_s"] = round(time.time() - t, 2)
    ctx.trust(*symrun.PYVC_TRUST)
    ctx.trust("M1: an n-dimensional isotropic subspace of F_2^{2n} equals its symplectic complement (lifts the definitional contracts to the property sentence; "
              "cross-checked by the exhaustive GROUND obligations)", "oracle group enumeration (count-checked) and group expansion")
    ctx.assume(*symrun.PYVC_ASSUMPTIONS)
    ctx.assume("GROUND cross-check: all groups n<=4 (5 thorough) with one seeded generating set and sign vector each; all pairs for n<=3; stratified pairs above (bounded)")
    return core.finish(ctx, "proof", "VCs from the real Stabilizer methods (pyvc) for all bit matrices n<=6 + spec-level lemma + exhaustive group-level cross-check",
                       "Definitional contracts proved symbolically for every R/S; property sentence via M1, cross-checked on all groups.", "./check C15 --tier " + ctx.tier)


def replay(data):
    inp = data["input"]
    from htstabilizer.stabilizer import Stabilizer
    if inp.get("paulis"):
        a = Stabilizer(list(inp["paulis"]))
        n = a.num_qubits
        gens = [P.from_label(l) for l in inp["paulis"]]
        bad = 0
        if inp.get("other"):
            og = [P.from_label(l) for l in inp["other"]]
            got = bool(a.is_equivalent_mod_phase(Stabilizer(list(inp["other"]))))
            want = P.canon_unsigned(n, gens) == P.canon_unsigned(n, og)
            print(f"is_equivalent_mod_phase({inp['paulis']}, {inp['other']}) = {got}; groups equal mod signs: {want}")
            bad += got != want
        else:
            supp = {(x | z) for x, z, _ in P.group_elements(n, gens)}
            for q in range(n):
                got, want = bool(a.is_qubit_entangled(q)), (1 << q) not in supp
                if got != want:
                    print(f"is_qubit_entangled({q}) = {got}, group has {'no ' if want else 'an '}element supported on qubit {q} alone")
                    bad += 1
            Xm, Zm = a.expand()
            cols = {(sum((int(Xm[r, i]) & 1) << r for r in range(n)), sum((int(Zm[r, i]) & 1) << r for r in range(n))) for i in range(1 << n)}
            if cols != {(x, z) for x, z, _ in P.group_elements(n, gens)}:
                print("expand() does not list the group")
                bad += 1
        return 1 if bad else 0
    print("symbolic counterexample:", inp)
    return 1
