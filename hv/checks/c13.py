"""C13 - results are a function of the arguments only: no history or aliasing effects.

Per-call contracts whose conjunction gives the history property (lemma at the end):
  C13.args_unmodified[f]     deep snapshot of every argument equal before/after the call          (kernel functions: SYM frame clauses in C18/C15/C16)
  C13.separation[f]          heap ownership: the set of MUTABLE objects reachable from the returned value is disjoint from the set reachable from
                             module state (lookup caches, pass manager, class-level tables) - so no caller-side mutation of a result can reach it
  C13.module_state           inventory (AST) of module-level mutable bindings and `global` statements of the library = the expected list; the
                             only writes to the caches are `cache[filename] = <parse of file>` (frame, AST)
  C13.mutation_then_call[f]  behavioural consequence checked directly: adversarially mutate everything reachable from a result, call again, compare
                             with the first result's snapshot; cold cache vs warm cache
  C13.deterministic          AST scan: no randomness / time / environment / hash-order dependence; two fresh processes with different
                             PYTHONHASHSEED and different call order produce identical digests (BOUNDED)
Lemma: arguments never mutated + caches written only with a pure function of the file + results share no mutable object with module state
+ determinism  =>  every call's result is a function of its arguments under every interleaving with caller-side mutations.
"""
from __future__ import annotations
import ast, copy, hashlib, inspect, json, os, subprocess, sys, textwrap, time, types, enum
import numpy as np
from .. import core, adapt
from ..core import GROUND, BOUNDED, PROVED, REFUTED, UNKNOWN
from ..oracle import docs, graphs as G, pauli as P

IMMUTABLE = (int, float, complex, str, bytes, bool, type(None), frozenset, range, types.FunctionType, types.BuiltinFunctionType, type,
             types.ModuleType, enum.Enum, np.dtype, np.generic, types.MethodType, property, staticmethod, classmethod)


def is_circuit(o):
    return type(o).__name__ == "QuantumCircuit"


def reach_mutable(root, limit=200000):
    """ids (and objects) of mutable objects reachable from root through containers, attributes and slots"""
    seen = {}
    stack = [root]
    while stack and len(seen) < limit:
        o = stack.pop()
        if isinstance(o, IMMUTABLE) and not isinstance(o, (list, dict)):
            continue
        if id(o) in seen:
            continue
        if isinstance(o, tuple):
            stack.extend(o)
            continue
        seen[id(o)] = o
        if isinstance(o, (list, set)):
            stack.extend(o)
        elif isinstance(o, dict):
            stack.extend(o.keys())
            stack.extend(o.values())
        elif isinstance(o, np.ndarray):
            if o.base is not None:
                stack.append(o.base)
            if o.dtype == object:
                stack.extend(o.reshape(-1).tolist())
        elif is_circuit(o):
            md = getattr(o, "metadata", None)
            if md is not None:
                stack.append(md)
            d = getattr(o, "_data", None)
            if d is not None:
                seen[id(d)] = d
        else:
            d = getattr(o, "__dict__", None)
            if isinstance(d, dict):
                stack.extend(d.values())
            for cls in type(o).__mro__:
                for s in getattr(cls, "__slots__", ()) if isinstance(getattr(cls, "__slots__", ()), (tuple, list)) else [getattr(cls, "__slots__")]:
                    if isinstance(s, str) and hasattr(o, s):
                        stack.append(getattr(o, s))
    return seen


def canon(o, depth=0):
    """deterministic plain-data snapshot of a result"""
    if depth > 12:
        return "<deep>"
    if is_circuit(o):
        md = o.metadata or {}
        return ("circuit", o.num_qubits, [(n, tuple(q)) for n, q in adapt.gates_of(o)], sorted((str(k), canon(v, depth + 1)) for k, v in md.items()))
    if isinstance(o, np.ndarray):
        return ("ndarray", str(o.dtype), o.tolist())
    if isinstance(o, (list, tuple)):
        return (type(o).__name__, [canon(x, depth + 1) for x in o])
    if isinstance(o, dict):
        return ("dict", sorted((str(k), canon(v, depth + 1)) for k, v in o.items()))
    if isinstance(o, (int, float, str, bool, type(None), complex)):
        return o
    if isinstance(o, enum.Enum):
        return ("enum", type(o).__name__, o.name)
    if isinstance(o, np.generic):
        return o.item()
    d = getattr(o, "__dict__", None)
    items = dict(d) if isinstance(d, dict) else {}
    for cls in type(o).__mro__:
        sl = getattr(cls, "__slots__", ())
        for s in ([sl] if isinstance(sl, str) else sl):
            if hasattr(o, s):
                items[s] = getattr(o, s)
    return (type(o).__name__, sorted((k, canon(v, depth + 1)) for k, v in items.items()))


def mutate(o, depth=0, seen=None):
    """adversarial in-place mutation of everything mutable reachable from o"""
    seen = set() if seen is None else seen
    if id(o) in seen or depth > 10 or isinstance(o, (int, float, str, bool, type(None), enum.Enum, type, types.ModuleType, types.FunctionType)):
        return
    seen.add(id(o))
    if is_circuit(o):
        try:
            o.x(0)
            o.h(0)
            o.metadata = {"junk": 1}
        except Exception:
            pass
        return
    if isinstance(o, np.ndarray):
        try:
            o[...] = (o + 1) % 2 if o.dtype != object else 1
        except Exception:
            pass
        return
    if isinstance(o, list):
        for x in list(o):
            mutate(x, depth + 1, seen)
        for i in range(len(o)):
            if isinstance(o[i], str):
                o[i] = "ZZZZZZ"[:max(1, len(o[i]))]
            elif isinstance(o[i], int):
                o[i] = 999
        o.append("junk")
        o.reverse()
        return
    if isinstance(o, dict):
        for v in list(o.values()):
            mutate(v, depth + 1, seen)
        for k in list(o.keys()):
            if isinstance(o[k], (int, float)):
                o[k] = -12345
        o["junk"] = 1
        return
    if isinstance(o, tuple):
        for x in o:
            mutate(x, depth + 1, seen)
        return
    d = getattr(o, "__dict__", None)
    names = list(d.keys()) if isinstance(d, dict) else []
    for cls in type(o).__mro__:
        sl = getattr(cls, "__slots__", ())
        names += [s for s in ([sl] if isinstance(sl, str) else sl) if hasattr(o, s)]
    for k in names:
        v = getattr(o, k)
        mutate(v, depth + 1, seen)
        try:
            if isinstance(v, bool):
                pass
            elif isinstance(v, int):
                setattr(o, k, 999)
            elif isinstance(v, str):
                setattr(o, k, "h0 cz0,1 junk")
        except Exception:
            pass


def module_state():
    import htstabilizer.circuit_lookup as cl
    import htstabilizer.stabilizer_circuits as sc
    import htstabilizer.lc_classes as lcc
    roots = [cl.stabilizer_file_cache, cl.mub_file_cache, sc.single_qubit_gate_canceller]
    for cls in (lcc.LCClass2, lcc.LCClass3, lcc.LCClass4, lcc.LCClass5, lcc.LCClass6):
        roots += [cls.combinatorics, cls.combinatorics_map, cls._start_indices]
    acc = {}
    for r in roots:
        acc.update(reach_mutable(r))
    return acc


def entry_points(n, conn, seed):
    """[(name, callable(), args to snapshot)] for one configuration"""
    import random
    from qiskit import QuantumCircuit
    from htstabilizer.stabilizer import Stabilizer
    from htstabilizer.graph import Graph
    import htstabilizer.stabilizer_circuits as sc
    import htstabilizer.mub_circuits as mc
    import htstabilizer.circuit_lookup as cl
    import htstabilizer.connectivity_support as cs
    import htstabilizer.tomography as T
    import htstabilizer.lc_classes as lcc
    import htstabilizer.find_local_clifford_layer as fl
    rnd = random.Random(seed)
    K = docs.CLASS_COUNT[n]
    LC = {2: lcc.LCClass2, 3: lcc.LCClass3, 4: lcc.LCClass4, 5: lcc.LCClass5, 6: lcc.LCClass6}[n]
    k = rnd.randrange(K)
    g = LC(k).get_graph()
    rows = G.apply_layer_unsigned(n, [(x, z) for x, z, _ in G.graph_state_gens(n, tuple(sum((int(g.adjacency_matrix[i, j]) & 1) << j for j in range(n)) for i in range(n)))],
                                  [rnd.randrange(6) for _ in range(n)])
    gens = [(x, z, rnd.randrange(2)) for x, z in rows]
    R, S, ph = adapt.matrices_from_gens(n, gens)
    st = Stabilizer((R, S, ph))
    qc = QuantumCircuit(n)
    for _ in range(12):
        a, b = rnd.sample(range(n), 2)
        rnd.choice([lambda: qc.h(a), lambda: qc.s(b), lambda: qc.cx(a, b), lambda: qc.cz(a, b), lambda: qc.y(a), lambda: qc.swap(a, b)])()
    prep = QuantumCircuit(n + 1)
    prep.h(0)
    prep.cx(0, n)
    ql = list(range(1, n + 1))
    gp = Graph.linear(n)
    ge = Graph(n)
    ge.add_edge(0, 1)
    from .. import tomo
    smc = T.stabilizer_measurement_circuit(QuantumCircuit(n), Stabilizer((R.copy(), S.copy(), ph.copy())), conn)
    counts = {tomo.key_of(b, n): 3 + (b * 7 + seed) % 11 for b in range(1 << n) if (b + seed) % 3}
    clist = [dict(counts), {tomo.key_of(b, n): 1 + (b * 5 + seed) % 13 for b in range(1 << n)}, dict(counts)]
    eps = [
        ("get_preparation_circuit", lambda: sc.get_preparation_circuit(st, conn), [st]),
        ("get_readout_circuit", lambda: sc.get_readout_circuit(st, conn), [st]),
        ("compress_preparation_circuit", lambda: sc.compress_preparation_circuit(qc, conn), [qc]),
        ("get_mub_circuits", lambda: mc.get_mub_circuits(n, conn), []),
        ("get_mubs", lambda: mc.get_mubs(n, conn), []),
        ("get_mub_info", lambda: mc.get_mub_info(n, conn), []),
        ("mub_circuit_lookup", lambda: cl.mub_circuit_lookup(n, conn), []),
        ("stabilizer_circuit_lookup", lambda: cl.stabilizer_circuit_lookup(n, conn, k), []),
        ("stabilizer_circuit_lookup.parse_circuit", lambda: cl.stabilizer_circuit_lookup(n, conn, k).parse_circuit(), []),
        ("get_connectivity_graph", lambda: cs.get_connectivity_graph(n, conn), []),
        ("get_available_connectivities", lambda: cs.get_available_connectivities(), []),
        ("stabilizer_measurement_circuit", lambda: T.stabilizer_measurement_circuit(prep, st, conn, ql), [prep, st, ql]),
        ("full_state_tomography_circuits", lambda: T.full_state_tomography_circuits(prep, conn, ql), [prep, ql]),
        ("StabilizerMeasurementFitter.expectation_values", lambda: T.StabilizerMeasurementFitter(tomo.FakeResult(counts), smc).expectation_values(), [counts, smc]),
        ("StabilizerMeasurementFitter.expectation_values[result_index]", lambda: T.StabilizerMeasurementFitter(tomo.FakeResult(clist), smc, result_index=1).expectation_values(full_hilbert_space=False), [clist, smc]),
        ("StabilizerMeasurementFitter.density_matrix", lambda: T.StabilizerMeasurementFitter(tomo.FakeResult(counts), smc).density_matrix(), [counts, smc]),
        ("determine_lc_class", lambda: lcc.determine_lc_class(st), [st]),
        ("LCClass.get_graph", lambda: LC(k).get_graph(), []),
        ("Stabilizer(graph)", lambda: Stabilizer(g), [g]),
        ("Stabilizer.to_list", lambda: st.to_list(), [st]),
        ("Stabilizer.expand", lambda: st.expand(), [st]),
        ("find_local_clifford_layer", lambda: fl.find_local_clifford_layer(st.R, st.S, g), [st, g]),
    ] + [(f"Graph.local_complemented[{v}]", (lambda v=v: g.local_complemented(v)), [g]) for v in range(n)] + [
        ("Graph.local_complemented[path-end]", lambda: gp.local_complemented(0), [gp]),
        ("Graph.local_complemented[isolated]", lambda: ge.local_complemented(n - 1), [ge]),
        ("Graph.copy", lambda: g.copy(), [g]),
    ]
    if n <= 3:
        fcs = T.full_state_tomography_circuits(QuantumCircuit(n), conn)
        fcounts = [{tomo.key_of(b, n): 2 + (b * 3 + j + seed) % 9 for b in range(1 << n) if (b + j) % 4} for j in range(len(fcs))]
        eps.append(("FullStateTomographyFitter.expectation_values", lambda: T.FullStateTomographyFitter(tomo.FakeResult(fcounts), fcs).expectation_values(), [fcounts, fcs]))
        eps.append(("FullStateTomographyFitter.density_matrix", lambda: T.FullStateTomographyFitter(tomo.FakeResult(fcounts), fcs).density_matrix(), [fcounts, fcs]))
    return eps


def config_job(args):
    n, conn, seed = args
    import htstabilizer.circuit_lookup as cl
    out = []
    # cold start for this configuration
    cl.stabilizer_file_cache.pop(f"stabilizer{n}-{conn}.txt", None)
    cl.mub_file_cache.pop(f"mub{n}-{conn}.txt", None)
    eps = entry_points(n, conn, seed)
    rp0 = {"n": n, "connectivity": conn, "seed": seed}
    first = {}
    for name, call, snapargs in eps:
        rp = dict(rp0, entry_point=name)
        before = [canon(a) for a in snapargs]
        try:
            r1 = call()
        except Exception as e:
            out.append(("C13.call_ok", False, f"call:{name}:{n}:{conn}", f"{name} raised {type(e).__name__}: {e} on {n}-{conn}", rp))
            continue
        out.append(("C13.args_unmodified", [canon(a) for a in snapargs] == before, f"args:{name}:{n}:{conn}", f"{name} modified one of its arguments on {n}-{conn}", rp))
        s1 = canon(r1)
        first[name] = s1
        ms = module_state()
        shared = [type(o).__name__ for i, o in reach_mutable(r1).items() if i in ms]
        # sharing with the ARGUMENTS is allowed (Stabilizer((R,S)) keeps R; in-place sign repair returns its own circuit)
        out.append(("C13.separation", not shared, f"sep:{name}:{n}:{conn}",
                    f"{name} on {n}-{conn}: the result shares mutable objects with module state (caches): {shared[:4]}", rp))
        # aliasing between a result and the caller's ARGUMENTS: an edit of the returned object would silently edit the argument.  The one place where the library keeps its
        # argument by design is the Stabilizer constructor (the caller's matrices / the graph's adjacency matrix become the object's data); everywhere else results are new objects
        if not name.startswith("Stabilizer("):
            argobjs = {}
            for a in snapargs:
                argobjs.update(reach_mutable(a))
            sh_args = [type(o).__name__ for i, o in reach_mutable(r1).items() if i in argobjs]
            out.append(("C13.result_separate_from_arguments", not sh_args, f"argsep:{name}:{n}:{conn}",
                        f"{name} on {n}-{conn}: the result shares mutable objects with the call's arguments ({sh_args[:4]}): editing the result edits the caller's object", rp))
        # mutate everything reachable from the result EXCEPT objects that are (reachable from) the call's own arguments: changing those
        # changes the arguments of the next call, which the property does not speak about
        argreach = set()
        for a in snapargs:
            argreach |= set(reach_mutable(a))
        reach1 = reach_mutable(r1)          # id -> object: the references keep the objects alive, so ids cannot be recycled by the second call
        mutate(r1, seen=set(argreach))
        try:
            r2 = call()
            ok = canon(r2) == s1 and [canon(a) for a in snapargs] == before
            why = "" if ok else "differs"
            # two results of two calls own their mutable parts: an object reachable from both (and not from the arguments) lets a caller who edits one result
            # change the other - whatever its current contents are (e.g. a dictionary kept in a default argument and refilled on every call)
            common = [type(o).__name__ for i, o in reach_mutable(r2).items() if i in reach1 and i not in argreach]
            out.append(("C13.results_disjoint", not common, f"disj:{name}:{n}:{conn}",
                        f"{name} on {n}-{conn}: the results of two successive calls share mutable objects {common[:4]} (editing one result edits the other)", rp))
        except Exception as e:
            ok, why = False, f"raised {type(e).__name__}: {e}"
        out.append(("C13.mutation_then_call", ok, f"mut:{name}:{n}:{conn}", f"{name} on {n}-{conn}: after the caller mutated the earlier result, the same call {why}", rp))
        if not ok or shared:
            # keep one entry point's failure from cascading into the next ones
            cl.stabilizer_file_cache.clear()
            cl.mub_file_cache.clear()
    # warm vs cold: clear caches again, recompute, compare
    cl.stabilizer_file_cache.clear()
    cl.mub_file_cache.clear()
    for name, call, _ in entry_points(n, conn, seed):
        if name not in first:
            continue
        try:
            ok = canon(call()) == first[name]
        except Exception:
            ok = False
        out.append(("C13.cold_equals_warm", ok, f"cold:{name}:{n}:{conn}", f"{name} on {n}-{conn}: result with a cold cache differs from the warm-cache result", dict(rp0, entry_point=name)))
    return out


MODULES = ["circuit_lookup", "mub_circuits", "stabilizer_circuits", "stabilizer", "graph", "connectivity_support", "lc_classes", "linear_index",
           "find_local_clifford_layer", "f2_algebra", "rotate_stabilizer_into_state", "tomography"]
EXPECTED_STATE = {"circuit_lookup": {"stabilizer_file_cache", "mub_file_cache"}, "stabilizer_circuits": {"single_qubit_gate_canceller"}, "tomography": {"Bitstring"}}
FORBIDDEN_NAMES = {"random", "time", "datetime", "environ", "getenv", "urandom", "uuid", "secrets", "hash", "id", "getpid", "input"}


def inventory(ctx):
    fam = ctx.family("C13.module_state", GROUND, "ast", "module-level mutable bindings / global statements = expected inventory; caches written only as cache[filename] = parse(file)")
    fam.exhaustive = True
    fam2 = ctx.family("C13.deterministic.ast", GROUND, "ast", "no use of randomness, clocks, environment, hash() or id() in the library modules (np.random only in tests)")
    fam2.exhaustive = True
    for m in MODULES:
        path = os.path.join(core.SRC, m + ".py")
        tree = ast.parse(open(path).read())
        state = set()
        for node in tree.body:
            if isinstance(node, (ast.Assign, ast.AnnAssign)):
                targets = node.targets if isinstance(node, ast.Assign) else [node.target]
                v = node.value
                mutable = isinstance(v, (ast.Dict, ast.List, ast.Set, ast.Call, ast.ListComp, ast.DictComp)) or (isinstance(v, ast.Attribute))
                if isinstance(v, ast.Call) and ast.unparse(v.func).startswith(("Literal", "TypeVar")):
                    mutable = False
                if isinstance(v, ast.Subscript):
                    mutable = False
                for t in targets:
                    if isinstance(t, ast.Name) and mutable:
                        state.add(t.id)
        globals_used = [n for n in ast.walk(tree) if isinstance(n, ast.Global)]
        exp = EXPECTED_STATE.get(m, set())
        from ..symrun import written_names
        written = written_names(tree)
        # a module-level container/object that the module never writes to is a constant table, not state
        new_state = {x for x in state - exp if x in written}
        consts = sorted(x for x in state - exp if x not in written)
        if consts:
            ctx.extra.setdefault("module_level_constant_objects", []).extend(f"{m}.{x}" for x in consts)
        ok = not new_state and not globals_used
        state = (state & exp) | new_state
        strict = os.environ.get("HV_PURITY_POLICY", "undecided") == "violation"
        ctx.record(fam, PROVED if ok else (REFUTED if strict else UNKNOWN), {"module": m, "module_level_mutable_bindings": sorted(state)})
        if not ok and not strict:
            ctx.undecide(fam, f"module {m}: module-level mutable state {sorted(state)} (expected {sorted(exp)}), global statements: {len(globals_used)} - the static "
                              "inventory argument is withdrawn (a correct memoisation breaks no property); the ownership / history clauses decide")
        elif not ok:
            ctx.violate(fam, f"state:{m}:{sorted(state)}", f"module {m}: module-level mutable state {sorted(state)} (expected {sorted(exp)}), global statements: {len(globals_used)}",
                        {"module": m, "state": sorted(state)}, has_input=False)
        # writes to caches
        if m == "circuit_lookup":
            writes = []
            for node in ast.walk(tree):
                if isinstance(node, ast.Subscript) and isinstance(node.ctx, (ast.Store, ast.Del)) and isinstance(node.value, ast.Name) and node.value.id in exp:
                    writes.append(ast.unparse(node))
                if isinstance(node, ast.Call) and isinstance(node.func, ast.Attribute) and isinstance(node.func.value, ast.Name) and node.func.value.id in exp \
                        and node.func.attr in ("update", "setdefault", "pop", "clear", "popitem", "__setitem__"):
                    writes.append(ast.unparse(node))
            okw = sorted(writes) == ["mub_file_cache[filename]", "stabilizer_file_cache[filename]"]
            ctx.record(fam, PROVED if okw else UNKNOWN, {"cache_writes": writes})
            if not okw:
                ctx.undecide(fam, f"structure drift: circuit_lookup writes its caches at {writes}; the frame argument 'only cache[filename] = parse(file)' no longer applies as written "
                                  "(the dynamic ownership clauses still decide)")
        bad = []
        for node in ast.walk(tree):
            if isinstance(node, ast.Call) and isinstance(node.func, ast.Name) and node.func.id in ("hash", "id", "input", "getenv", "urandom"):
                bad.append(node.func.id + "()")
            if isinstance(node, ast.Attribute):
                txt = ast.unparse(node)
                if txt.startswith(("np.random", "numpy.random", "random.", "time.", "datetime.", "os.environ", "os.getenv", "os.urandom", "secrets.", "uuid.")):
                    bad.append(txt)
            if isinstance(node, (ast.Import, ast.ImportFrom)):
                names = [a.name for a in node.names] + ([node.module] if isinstance(node, ast.ImportFrom) and node.module else [])
                bad += [x for x in names if x.split(".")[0] in ("random", "time", "datetime", "secrets", "uuid")]
            if isinstance(node, (ast.For, ast.comprehension)) and isinstance(node.iter, (ast.Set, ast.SetComp)):
                bad.append("iteration over a set display")
        okd = not bad
        # a MAY-analysis: a mention of a clock / random source / id() is not yet a dependence of results on it.  It withdraws the static argument (UNDECIDED);
        # whether results depend on history or process is decided by the behavioural clauses (cold/warm, call order, two processes with different hash seeds)
        ctx.record(fam2, PROVED if okd else UNKNOWN, {"module": m})
        if not okd:
            ctx.undecide(fam2, f"module {m} mentions sources of nondeterminism {sorted(set(bad))}: the static determinism argument is withdrawn")


DIGEST_SCRIPT = r'''
import sys, json, hashlib
import os; sys.path.insert(0, os.environ.get("HV_ROOT", "/verif")); sys.path.insert(0, os.environ.get("HV_REPO", "/repo") + "/src")
from hv.checks import c13
from hv.oracle import docs
order = int(sys.argv[1]); seed = int(sys.argv[2]); nmax = int(sys.argv[3])
cfgs = [c for c in docs.ADVERTISED if c[0] <= nmax]
if order: cfgs = list(reversed(cfgs))
res = {}
for (n, conn) in cfgs:
    eps = c13.entry_points(n, conn, seed)
    if order: eps = list(reversed(eps))
    for name, call, _ in eps:
        try: v = c13.canon(call())
        except Exception as e: v = "EXC " + type(e).__name__
        res[f"{n}-{conn}:{name}"] = hashlib.sha256(json.dumps(v, default=str, sort_keys=True).encode()).hexdigest()
print(json.dumps(res, sort_keys=True))
'''


def cross_process(ctx):
    fam = ctx.family("C13.deterministic.cross_process", BOUNDED, "native", "two fresh interpreters, different PYTHONHASHSEED and call order, identical result digests")
    fam.exhaustive = False
    outs = []
    nmax = 4 if ctx.quick else 6
    procs = []
    for order, hs in ((0, "1"), (1, "4242")):
        env = dict(os.environ, PYTHONHASHSEED=hs, PYTHONPATH=f"{core.ROOT}:{core.REPO}/src", HV_ROOT=core.ROOT, HV_REPO=core.REPO)
        procs.append(subprocess.Popen([sys.executable, "-c", DIGEST_SCRIPT, str(order), str(ctx.seed), str(nmax)], stdout=subprocess.PIPE, stderr=subprocess.PIPE, env=env, text=True))
    for p in procs:
        o, e = p.communicate(timeout=1200)
        if p.returncode != 0:
            raise core.CheckerError("digest subprocess failed: " + e[-500:])
        outs.append(json.loads(o.strip().split("\n")[-1]))
    for k in sorted(outs[0]):
        ok = outs[0][k] == outs[1].get(k)
        ctx.record(fam, PROVED if ok else REFUTED, {"call": k} if fam.total < 2 else None)
        if not ok:
            ctx.violate(fam, f"xproc:{k}", f"{k}: two fresh processes (different hash seed and call order) return different results", {"call": k})


def class_objects_job(n):
    """LCClass objects and grouping arguments are not modified by id(), ==, str(), get_graph() or the linear_index codecs, however often they are called"""
    import htstabilizer.lc_classes as lcc
    LC = {2: lcc.LCClass2, 3: lcc.LCClass3, 4: lcc.LCClass4, 5: lcc.LCClass5, 6: lcc.LCClass6}[n]
    out = []
    for k in range(docs.CLASS_COUNT[n]):
        obj = LC(k)
        s0 = canon(obj)
        g0 = canon(obj.get_graph())
        ok = True
        for _ in range(3):
            ok = ok and obj.id() == k and obj == LC(k) and isinstance(str(obj), str) and canon(obj) == s0 and canon(obj.get_graph()) == g0
        out.append((ok, f"classobj:{n}:{k}", f"LCClass{n}({k}): id()/==/str()/get_graph() change the object (or its answers) when repeated", {"n": n, "class_id": k}))
    for nm, com in LC.combinatorics.items():
        for i in range(com["count"]):
            r = com["from_lin_idx1"](i)
            s0 = canon(r)
            vals = [com["to_lin_idx"](r) for _ in range(3)]
            ok = canon(r) == s0 and vals == [i, i, i]
            out.append((ok, f"linidx-args:{n}:{nm}:{i}", f"{nm}: from-codec modifies its grouping argument (index {i}, answers {vals})", {"n": n, "type": nm, "index": i}))
    return out


def run(ctx: core.Ctx):
    import htstabilizer.circuit_lookup as cl
    import htstabilizer.mub_circuits as mc
    for f in (cl.stabilizer_circuit_lookup, cl.mub_circuit_lookup, cl.MUBInfo.copy, mc.get_mubs, mc.get_mub_circuits, mc.get_mub_info):
        ctx.under_contract(f)
    t = time.time()
    inventory(ctx)
    jobs = [(n, c, ctx.seed * 100 + i + r * 1000) for i, (n, c) in enumerate(docs.ADVERTISED) for r in range(1 if ctx.quick else 4)]
    for res in core.pmap(config_job, jobs, chunks=1):
        for famname, ok, key, what, rp in res:
            fam = ctx.family(famname, GROUND, "native")
            fam.exhaustive = True
            fam.domain = "every public entry point x every advertised configuration (seeded argument per configuration)"
            ctx.record(fam, PROVED if ok else REFUTED, rp if fam.total < 2 else None)
            if not ok:
                ctx.violate(fam, key, what, rp)
    famc = ctx.family("C13.args_unmodified.class_objects", GROUND, "native", "LCClass objects / grouping arguments unchanged by repeated id(), ==, str(), get_graph(), codec calls")
    famc.exhaustive = True
    famc.domain = "all 878 class ids; every index of every grouping codec"
    for res in core.pmap(class_objects_job, [2, 3, 4, 5, 6], chunks=1):
        for ok, key, what, rp in res:
            ctx.record(famc, PROVED if ok else REFUTED, rp if famc.total < 2 else None)
            if not ok:
                ctx.violate(famc, key, what, rp)
    cross_process(ctx)
    ctx.extra["ground_time_s"] = round(time.time() - t, 2)
    ctx.trust("heap walker (containers, __dict__, __slots__, ndarray bases; a QuantumCircuit is one opaque mutable object plus its metadata)",
              "qiskit: QuantumCircuit.copy / compose / PassManager.run return circuits that share no instruction storage with their source (Q3/Q4)")
    ctx.assume("histories: the per-call contracts imply the property for ALL interleavings by the lemma in the module docstring; the behavioural clauses exercise "
               "one adversarial mutation per entry point and configuration", "'a different process' is checked on two processes only (BOUNDED)",
               "sharing between a result and the ARGUMENTS is permitted by the property (it only forbids the library to modify what it was given)")
    return core.finish(ctx, "proof", "frame / ownership contracts: argument snapshots, heap separation from module state, module-state inventory on the AST",
                       "Per-call frame and ownership contracts on every public entry point and configuration; lemma lifts them to all histories.", "./check C13 --tier " + ctx.tier)


def replay(data):
    inp = data["input"]
    if "connectivity" not in inp:
        print("static obligation:", data["what"])
        return 1
    bad = [r for r in config_job((inp["n"], inp["connectivity"], inp.get("seed", 0))) if not r[1] and r[2] == data["key"]]
    for r in bad:
        print("REPRODUCED:", r[3])
    return 1 if bad else 0
