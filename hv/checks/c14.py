"""C14 - all input formats of a stabilizer describe the same signed group.

Contracts (stabilizer.Stabilizer.__init__ / to_list, graph.Graph.to_circuit):
  list format     per generator string: optional leading sign, then one letter per qubit, FIRST letter = qubit 0; X/Y set the X bit, Z/Y the Z bit
                  (Y = Hermitian Y); '-' sets the phase bit; ragged lengths and characters outside IXYZ+- are rejected; generator j is column j
                  [GROUND: the loop body treats each generator independently (it writes only column `row` - checked), so all 3*4^n signed strings per n
                   at every position cover all lists; plus all lists for n = 2]
  to_list         exact inverse on canonical strings ('+'/'-' always present): to_list(Stabilizer(L)) == canon(L), Stabilizer(to_list(s)) == s;
                  qiskit_convention=True gives the exact mirror image of each letter string
  tuple format    R, S, phases equal the inputs (as int8), inputs unmodified; two-array form gives zero phases      [SYM: pyvc VC from the real constructor,
                  all bit matrices of int8 / int64 dtype, n = 1..6]
  graph format    generators X_v Z_N(v), zero phases, adjacency matrix not written     [SYM n = 1..6; GROUND all graphs n <= 5, seeded n = 6]
  circuit format  Stabilizer(circuit) generates the signed group of circuit|0..0>      [assumed Q1; evaluated in C07's domain: exhaustive <=2 gates on <=3 qubits]
  cross-format    the formats built from one signed generating set give equal R, S, phases
"""
from __future__ import annotations
import itertools, random, time
import numpy as np
from .. import core, adapt, e2e
from ..core import GROUND, BOUNDED, PROVED, REFUTED
from ..oracle import pauli as P, graphs as G, docs


def strings_job(n):
    from htstabilizer.stabilizer import Stabilizer
    out = []
    ident = "I" * n
    letters = ["".join(t) for t in itertools.product("IXYZ", repeat=n)]
    for pos in range(n):
        for body in letters:
            for sign in ("", "+", "-"):
                lst = [ident] * n
                lst[pos] = sign + body
                key = f"str:{n}:{pos}:{sign}{body}"
                rp = {"n": n, "paulis": lst, "python": f"Stabilizer({lst}).to_list()"}
                try:
                    st = Stabilizer(list(lst))
                except Exception as e:
                    out.append(("C14.parse", False, key, f"Stabilizer({lst}) raised {type(e).__name__}: {e}", rp))
                    continue
                x, z, s = P.from_label(sign + body)
                ok = st.num_qubits == n and st.R.dtype.kind in "iub" and st.S.dtype.kind in "iub"      # integer-typed; which integer type is not part of the property
                for j in range(n):
                    for q in range(n):
                        wx = (x >> q) & 1 if j == pos else 0
                        wz = (z >> q) & 1 if j == pos else 0
                        ok = ok and int(st.R[q, j]) == wx and int(st.S[q, j]) == wz
                    ok = ok and int(st.phases[j]) == (s if j == pos else 0)
                out.append(("C14.parse", ok, key, f"Stabilizer({lst}): R/S/phases do not encode the strings (first letter = qubit 0, generator j = column j)", rp))
                canon = ["+" + ident] * n
                canon[pos] = ("-" if sign == "-" else "+") + body
                exp = st.to_list()
                mir = st.to_list(qiskit_convention=True)
                okx = exp == canon and mir == [c[0] + c[1:][::-1] for c in canon] and Stabilizer(exp) == st
                out.append(("C14.export_roundtrip_mirror", okx, key, f"to_list of Stabilizer({lst}) = {exp}, reversed {mir}; expected {canon} and its mirror image", rp))
    # rejections: bad characters, ragged lengths, wrong count
    bad_inputs = [["A" * n] + [ident] * (n - 1), [ident[:-1]] + [ident] * (n - 1) if n > 1 else ["", ], [ident] * (n + 1), [ident + "X"] + [ident] * (n - 1),
                  ["x" + ident[1:]] + [ident] * (n - 1)]
    for lst in bad_inputs:
        try:
            Stabilizer(list(lst))
            ok = False
        except Exception:             # which exception type rejects a malformed list is not part of the property
            ok = True
        out.append(("C14.parse.rejects_malformed", ok, f"bad:{n}:{lst}", f"Stabilizer({lst}) accepted a malformed list", {"n": n, "paulis": lst}))
    return out


def all_lists_job(_):
    """n = 2: every list of two signed strings"""
    from htstabilizer.stabilizer import Stabilizer
    out = []
    strs = [s + "".join(t) for s in ("", "+", "-") for t in itertools.product("IXYZ", repeat=2)]
    for a in strs:
        for b in strs:
            st = Stabilizer([a, b])
            gens = adapt.gens_of_stabilizer(st)
            ok = gens == [P.from_label(a), P.from_label(b)]
            out.append(("C14.parse.all_lists_n2", ok, f"list2:{a}:{b}", f"Stabilizer([{a!r},{b!r}]) encodes {gens}", {"n": 2, "paulis": [a, b]}))
    return out


def formats_job(args):
    n, seed, count = args
    from htstabilizer.stabilizer import Stabilizer
    from htstabilizer.graph import Graph
    rnd = random.Random(seed)
    out = []
    for t in range(count):
        gens = [(rnd.randrange(1 << n), rnd.randrange(1 << n), rnd.randrange(2)) for _ in range(n)]
        labels = [P.to_label(n, g) for g in gens]
        R, S, ph = adapt.matrices_from_gens(n, gens)
        R64, S64, ph64 = R.astype(np.int64), S.astype(np.int64), ph.astype(np.int64)
        Rb, Sb, pb = R64.copy(), S64.copy(), ph64.copy()
        a = Stabilizer(labels)
        b = Stabilizer((R, S, ph))
        c = Stabilizer((R64, S64, ph64))
        d = Stabilizer((R, S))
        ok = a == b and b == c and all(x.R.dtype.kind in "iub" and x.S.dtype.kind in "iub" and x.phases.dtype.kind in "iub" for x in (a, b, c, d)) \
            and np.array_equal(d.R, R) and np.array_equal(d.S, S) and not d.phases.any() and len(d.phases) == n \
            and np.array_equal(R64, Rb) and np.array_equal(S64, Sb) and np.array_equal(ph64, pb) and a.to_list() == labels
        out.append(("C14.cross_format", ok, f"fmt:{n}:{labels}", f"string / int8 matrix / int64 matrix forms of {labels} disagree (or inputs modified)", {"n": n, "paulis": labels}))
    return out


def graph_job(args):
    n, gids = args
    from htstabilizer.stabilizer import Stabilizer
    from htstabilizer.graph import Graph
    out = []
    for gid in gids:
        adj = G.adj_from_id(n, gid)
        g = Graph.decompress(n, gid)
        before = g.adjacency_matrix.copy()
        st = Stabilizer(g)
        ok = adapt.gens_of_stabilizer(st) == G.graph_state_gens(n, adj) and np.array_equal(before, g.adjacency_matrix)
        # graphs built from adjacency arrays of other dtypes (the dtype is part of the input)
        for dt in (np.uint8, np.int64, np.bool_, np.int16, np.uint32):
            gd = Graph(before.astype(dt))
            ok = ok and adapt.gens_of_stabilizer(Stabilizer(gd)) == G.graph_state_gens(n, adj) and gd.compress() == gid
        out.append(("C14.graph_format", ok, f"graph:{n}:{gid}", f"Stabilizer(Graph {gid} on {n}) is not <X_v Z_N(v)> with + signs", {"n": n, "graph_id": gid}))
        if adj != tuple([0] * n):
            try:
                gates = adapt.gates_of(g.to_circuit())
                okc = P.canon(n, P.state_generators(n, gates)) == P.canon(n, G.graph_state_gens(n, adj))
            except Exception as e:
                okc = False
            out.append(("C14.graph_circuit", okc, f"gcirc:{n}:{gid}", f"Graph({gid}).to_circuit() does not prepare the graph state", {"n": n, "graph_id": gid}))
    return out


def run(ctx: core.Ctx):
    from htstabilizer.stabilizer import Stabilizer
    from htstabilizer.graph import Graph
    for f in (Stabilizer.__init__, Stabilizer.to_list, Stabilizer.__eq__, Graph.to_circuit):
        ctx.under_contract(f)
    ctx.selfcheck["oracle_gate_rules_checked_densely"] = P.selftest()
    t = time.time()
    # frame: the string loop writes only column `row` (so per-generator enumeration covers all lists)
    fam = ctx.family("C14.frame.string_loop_writes_only_its_column", GROUND, "ast", "in the list branch of Stabilizer.__init__ every store into R/S/phases is indexed by the loop variable `row`")
    fam.exhaustive = True
    import ast, inspect, textwrap
    fn = ast.parse(textwrap.dedent(inspect.getsource(Stabilizer.__init__))).body[0]
    stores = []
    for node in ast.walk(fn):
        if isinstance(node, ast.For) and isinstance(node.target, ast.Tuple) and getattr(node.target.elts[0], "id", "") == "row":
            for sub in ast.walk(node):
                if isinstance(sub, ast.Subscript) and isinstance(sub.ctx, ast.Store):
                    stores.append(ast.unparse(sub))
    okf = bool(stores) and all(s in ("self.phases[row]", "self.R[col, row]", "self.S[col, row]") for s in stores)
    ctx.record(fam, PROVED if okf else core.UNKNOWN, {"stores": stores})
    if not okf:
        ctx.undecide(fam, f"structure drift in Stabilizer.__init__ list branch: stores {stores}")
    from .. import symrun
    from ..contracts import stab as SC
    sym = []
    for n in range(1, 7):
        sym += [SC.case_init_tuple(n, True, "int8"), SC.case_init_tuple(n, False, "int8"), SC.case_init_tuple(n, True, "int64"), SC.case_init_tuple(n, True, "uint8")]
        sym += [SC.case_init_graph(n, d) for d in ("int8", "uint8", "int64")]
        sym.append(SC.case_init_circuit(n))        # the constructor's reading of the tableau layout assumed in Q1, for every tableau
    symrun.run(ctx, sym, label="sym")      # matrix and graph formats: VCs from the real constructor, all bit matrices / all graphs, n = 1..6
    jobs = [(strings_job, n) for n in range(1, 7 if not ctx.quick else 6)]
    res = core.pmap(lambda j: j[0](j[1]), jobs + [(all_lists_job, 0)] + [(formats_job, (n, ctx.seed + n, 200 if ctx.quick else 2000)) for n in range(2, 7)], chunks=1)
    gjobs = []
    for n in range(2, 6):
        total = 1 << (n * (n - 1) // 2)
        gjobs += [(n, ch) for ch in core.chunked(range(total), 8)]
    rnd = random.Random(ctx.seed)
    g6 = list(range(1 << 15)) if not ctx.quick else sorted(rnd.sample(range(1 << 15), 1500))
    gjobs += [(6, ch) for ch in core.chunked(g6, 16)]
    res += core.pmap(graph_job, gjobs, chunks=1)
    for r in res:
        for famname, ok, key, what, rp in r:
            bounded = famname == "C14.cross_format" or (famname.startswith("C14.graph") and rp.get("n") == 6 and ctx.quick)
            fam = ctx.family(famname + (".seeded" if bounded else ""), BOUNDED if bounded else GROUND, "native+oracle")
            fam.exhaustive = not bounded
            ctx.record(fam, PROVED if ok else REFUTED, rp if fam.total < 2 else None)
            if not ok:
                ctx.violate(fam, key, what, rp)
    # circuit format (Q1) on C07's exhaustive small-circuit domain
    from .c07 import circuit_jobs, eval_circuit
    cj = [j for j in circuit_jobs(ctx) if len(j[2]) <= 2 and j[0] <= 3] + [j for j in circuit_jobs(ctx, small=True)]
    for r, j in zip(core.pmap(eval_circuit, cj), cj):
        small = len(j[2]) <= 2 and j[0] <= 3
        for famname, ok, key, what, rp in r:
            if not famname.startswith("C14."):
                continue
            fam = ctx.family(famname + (".le2gates_le3qubits" if small else ".seeded_long"), GROUND if small else BOUNDED, "native+oracle")
            fam.exhaustive = small
            ctx.record(fam, PROVED if ok else REFUTED, {"circuit": rp["circuit"][:60]} if fam.total < 2 else None)
            if not ok:
                ctx.violate(fam, key[:300], what, rp)
    ctx.extra["ground_time_s"] = round(time.time() - t, 2)
    ctx.extra["observations"] = ["Graph(n).to_circuit() raises TypeError for an edgeless graph (cz(*zip(*[]))); outside the property sentence, recorded as an observation"]
    ctx.trust("oracle label parser / tableau simulator", "Q1 (ASSUMED) for the circuit format", *symrun.PYVC_TRUST)
    ctx.assume("string format: per-generator enumeration (all 3*4^n strings at every position, n<=5 quick / 6 thorough) covers all lists by the column frame; all lists for n=2 directly",
               "circuit format: exhaustive only for <=2 gates on <=3 qubits, seeded long circuits otherwise (Q1 assumed)", "cross-format on seeded generator lists (bounded)")
    return core.finish(ctx, "proof", "format contracts discharged by complete enumeration (strings per generator, graphs) + frame; circuit format under assumed Q1",
                       "String, matrix and graph formats exhaustively; circuit format relative to Q1.", "./check C14 --tier " + ctx.tier)


def replay(data):
    inp = data["input"]
    from htstabilizer.stabilizer import Stabilizer
    if "job" in inp and "circuit" in inp:
        from .c07 import eval_circuit
        n, conn, gl, layout = inp["job"]
        bad = [r for r in eval_circuit((n, conn, [(nm, list(q)) for nm, q in gl], layout)) if not r[1] and r[0].startswith("C14")]
        for r in bad:
            print("REPRODUCED:", r[3])
        return 1 if bad else 0
    if inp.get("paulis") and all(isinstance(l, str) for l in inp["paulis"]):
        labels = list(inp["paulis"])
        n = len(labels[0].lstrip("+-"))
        try:
            st = Stabilizer(list(labels))
        except Exception as e:
            print("Stabilizer(", labels, ") raised", type(e).__name__, e, "(a malformed list is expected to be rejected)")
            return 0 if any(len(l.lstrip("+-")) != n or set(l.lstrip("+-")) - set("IXYZ") for l in labels) or len(labels) != n else 1
        canon = [(l if l[0] in "+-" else "+" + l) for l in labels]
        exp, mir = st.to_list(), st.to_list(qiskit_convention=True)
        gens = adapt.gens_of_stabilizer(st)
        want = [P.from_label(l) for l in canon]
        ok = exp == canon and mir == [c[0] + c[1:][::-1] for c in canon] and [tuple(g) for g in gens] == [tuple(w) for w in want]
        print("Stabilizer(", labels, ") -> to_list", exp, "reversed", mir, "| as expected:", ok)
        return 0 if ok else 1
    print("no single failing input in this replay file:", inp)
    return 1
