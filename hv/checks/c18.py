"""C18 - GF(2) linear algebra routines are correct for every binary matrix (of the stated shapes).

Obligations (contracts in hv/contracts/f2.py):
  C18.mat_mul.* / C18.add.*            whole-function VCs, symbolic bit matrices
  C18.rref.{form,kernel.fwd,kernel.bwd,bits,noraise,frame...}  whole-function merged VC (small shapes)
  C18.rref.cut.{init,preserve,exit,step,frame...}              loop-invariant proof + per-iteration row-space relation (ANF),
                                                               every (h,k[,pivot row]) of every listed shape
  C18.rank.value                        modular over rref's contract
  C18.null_space.{typed_shape,count,in_kernel,echelon}          modular over rref's contract, symbolic pivot set
  C18.rref_and_basis_change.*           whole-function VCs (small shapes)
Property sentence = these postconditions + M2 (kernel equality <=> row space equality; n - rank independent kernel vectors
form a basis), M3 (RREF of a row space is unique), M4 (composition of kernel-preserving steps preserves the kernel).
"""
from __future__ import annotations
import time
import numpy as np
from .. import core, symrun
from ..core import BOUNDED, PROVED, REFUTED
from ..contracts import f2 as C


def lib_shapes(nmax=6):
    val = [(2 * n, n) for n in range(2, nmax + 1)]
    lay = [(n * m, 4 * n) for n in range(2, nmax + 1) for m in range(1, n + 1)]
    return val, lay


def selftest_interpreter(ctx, rounds=40):
    """differential test: interpreter on concrete inputs == CPython (a test of the verifier, not an obligation)"""
    from ..pyvc import interp as I, sym as S
    import htstabilizer.f2_algebra as f2
    rng = np.random.default_rng(ctx.seed + 18)

    def conc(v):
        if isinstance(v, np.ndarray):
            return np.asarray(S.concretize(v, {})).astype(np.int64)
        if isinstance(v, S.GList):
            return [conc(x) for x in v.plain()]
        if isinstance(v, (tuple, list)):
            return [conc(x) for x in v]
        return v

    def same(a, b):
        if isinstance(a, np.ndarray) or isinstance(b, np.ndarray):
            a, b = np.asarray(a), np.asarray(b)
            return a.shape == b.shape and np.array_equal(a.astype(np.int64), b.astype(np.int64))
        if isinstance(a, (tuple, list)):
            return len(a) == len(b) and all(same(x, y) for x, y in zip(a, b))
        return a == b
    n = 0
    for fn in (f2.rref, f2.rank, f2.null_space, f2.rref_and_basis_change):
        for _ in range(rounds):
            m, k = rng.integers(1, 8, 2)
            A = rng.integers(0, 2, (m, k)).astype(np.int8)
            try:
                e = fn(A.copy())
            except Exception:
                continue
            r = conc(I.Interp().run(fn, [A.copy()]))
            if isinstance(e, np.ndarray) and e.size == 0:
                continue
            if not same(r, conc(e) if not isinstance(e, np.ndarray) else e):
                # the interpreter does not reproduce CPython on this (possibly modified) code: its verdicts on this function are not trusted
                ctx.selfcheck.setdefault("interpreter_disagrees_with_cpython_on", []).append(fn.__name__)
                fam = ctx.family("C18.selftest.interpreter_faithful", core.SYM, "pyvc")
                ctx.record(fam, core.UNKNOWN)
                ctx.undecide(fam, f"interpreter differs from CPython on {fn.__name__}({A.tolist()}): SYM verdicts for this function are withheld")
                break
            n += 1
    ctx.selfcheck["interpreter_vs_cpython_concrete_runs"] = n


def run(ctx: core.Ctx):
    import htstabilizer.f2_algebra as f2
    for f in (f2.mat_mul, f2.add, f2.rref, f2.rank, f2.null_space, f2.rref_and_basis_change, f2.trf_swap_rows, f2.trf_add_row):
        ctx.under_contract(f)
    symrun.purity(ctx, (f2.mat_mul, f2.add, f2.rref, f2.rank, f2.null_space, f2.rref_and_basis_change, f2.trf_swap_rows, f2.trf_add_row), "C18.frame.no_module_state")
    try:
        selftest_interpreter(ctx)
    except core.CheckerError:
        raise
    except Exception as e:
        fam = ctx.family("C18.selftest.interpreter_faithful", core.SYM, "pyvc")
        ctx.record(fam, core.UNKNOWN)
        ctx.undecide(fam, f"interpreter could not run the code concretely ({type(e).__name__}: {e})")
    q = ctx.quick
    tasks = []
    # ---- mat_mul / add
    mm = [(a, b, c) for a in range(1, 4) for b in range(1, 4) for c in range(1, 4)] + [(4, 4, 4), (2, 4, 2), (3, 6, 3), (4, 8, 4), (4, 4, 3), (5, 5, 5), (6, 6, 6), (6, 12, 6), (5, 10, 5)]
    if not q:
        mm += [(6, 6, 5), (4, 3, 16), (8, 3, 24), (16, 4, 24)]
    tasks += [C.case_mat_mul(*s) for s in mm]
    tasks += [C.case_add(a, b) for a, b in [(1, 1), (2, 3), (4, 4), (6, 6), (6, 5), (1, 4)]]
    # ---- rref whole function
    small = [(m, n) for m in range(1, 7) for n in range(1, 7)] + [(7, 5)]
    for (m, n) in small:
        tasks.append(C.case_rref(m, n, with_kernel=(m * n <= 16), timeout=120.0 if not q else 40.0))
    val, lay = lib_shapes(6)
    for (m, n) in val:
        tasks.append(C.case_rref(m, n, with_kernel=False, timeout=120.0))
    # ---- rref loop-cut proof
    cut_shapes = sorted(set(small if not q else [(m, n) for m, n in small if m <= 4 and n <= 4]) | set(val) |
                        set(lay if not q else [s for s in lay if s[1] <= 12]))
    for (m, n) in cut_shapes:
        tasks += C.rref_cut_tasks(m, n)
    # ---- rank / null_space modular
    mod_shapes = sorted(set(small) | set(val) | set(lay if not q else [s for s in lay if s[1] <= 12]))
    tasks += [C.case_rank(m, n) for m, n in mod_shapes]
    ns_shapes = sorted(set((m, n) for m, n in small if not q or (m <= 5 and n <= 5)) | set(val if not q else val[:3]) |
                       set(lay if not q else [s for s in lay if s[1] <= 8]))
    tasks += [C.case_null_space(m, n, timeout=300.0 if not q else 60.0) for m, n in ns_shapes]
    # ---- rref_and_basis_change whole function
    rabc = [(m, n) for m in range(1, 4) for n in range(1, 4)] + ([(4, 4), (4, 3), (3, 4)] if q else [(4, 4), (4, 3), (3, 4), (5, 4), (4, 5)])      # 5x5 and larger: z3 times out on M*Minv=I; bounded stand-in below
    tasks += [C.case_rabc(m, n, timeout=300.0 if not q else 60.0) for m, n in rabc]
    ctx.extra["shapes"] = {"rref_whole": small + val, "rref_loop_invariant": cut_shapes, "rank_modular": mod_shapes,
                           "null_space_modular": ns_shapes, "rref_and_basis_change": rabc, "mat_mul": mm,
                           "not_covered": "shapes outside these lists (the property's 'any shape' is claimed for the listed shapes only)"}
    symrun.run(ctx, tasks, label="sym")
    bounded(ctx)
    ctx.trust(*symrun.PYVC_TRUST)
    ctx.trust("M2: over GF(2), ker A = ker B <=> rowspace A = rowspace B; n - rank independent kernel vectors are a basis",
              "M3: the reduced row echelon form of a row space is unique; its pivot count is the rank",
              "M4: a finite composition of kernel-preserving steps preserves the kernel")
    ctx.assume(*symrun.PYVC_ASSUMPTIONS)
    ctx.assume("rref's row-space clause for loop-cut shapes is the composition (M4) of the per-iteration relations "
               "A' = T*A, T*(Swap*Elim) = I, each decided by ANF for every (h, k, pivot row)",
               "shapes not listed in coverage.shapes are not covered")
    return core.finish(ctx, "proof", "VCs generated from the repository AST (pyvc), discharged by ANF/z3/cvc5; modular over rref's contract",
                       "Whole-function and loop-invariant verification conditions over ALL bit matrices of each listed shape, "
                       "generated from the working tree's f2_algebra.py on this run.", "./check C18 --tier " + ctx.tier)


def bounded(ctx):
    """BOUNDED stand-in (never counted as proved): random matrices of shapes up to 40x30 against brute-force kernels"""
    import htstabilizer.f2_algebra as f2
    rng = np.random.default_rng(ctx.seed)
    fam = ctx.family("C18.bounded.random_large_shapes", BOUNDED, "native", "rref/null_space/rank vs independent elimination on random matrices up to 40x30")
    fam.exhaustive = False
    n_runs = 60 if ctx.quick else 600

    def contract_ok(A):
        A0 = A.copy()
        m, n = A.shape
        try:
            Bm, piv = f2.rref(A)
            K = f2.null_space(A)
            r = f2.rank(A)
            ok = isinstance(Bm, np.ndarray) and Bm.shape == (m, n) and bool(C.L.B(C.L.rref_form(Bm, list(piv)))) and C.native_same_kernel(A0, Bm) and r == len(piv) and np.array_equal(A, A0)
            ok = ok and isinstance(K, np.ndarray) and K.ndim == 2 and K.shape == (n - r, n) and not ((A0.astype(np.int64) @ K.T.astype(np.int64)) % 2).any()
            ok = ok and (K.shape[0] == 0 or len(C._rowspace_key(K.astype(np.int64))) == n - r)
        except Exception:
            ok = False
        return ok

    for t in range(n_runs):
        m, n = int(rng.integers(1, 41)), int(rng.integers(1, 31))
        dens = rng.choice([0.1, 0.5, 0.9])
        A = (rng.random((m, n)) < dens).astype(np.int8)
        if t % 7 == 0 and m >= n:
            A[:n, :n] = np.eye(n, dtype=np.int8)          # full column rank
        big = np.zeros((m + 2, n + 1), dtype=np.int8)
        big[1:m + 1, :n] = A
        # the same matrix in C order, Fortran order and as a slice of a larger array (memory layout is part of the input)
        ok = contract_ok(A.copy()) and contract_ok(np.asfortranarray(A.copy())) and contract_ok(big[1:m + 1, :n])
        ctx.record(fam, PROVED if ok else REFUTED, {"shape": [m, n]} if t < 2 else None)
        if not ok:
            ctx.violate(fam, f"bounded:{m}x{n}:{A.tobytes().hex()[:24]}", f"random {m}x{n} matrix violates the f2_algebra contracts",
                        {"args": [{"ndarray": A.tolist(), "dtype": "int8"}]})
    # pivot patterns: null_space / rank depend on A only through (rref(A), pivots); every pivot pattern of up to 12 columns (and all patterns with at most
    # 4 or at least n-4 pivots for 16, 20, 24 columns) is presented once, as a tall and as a wide matrix with random free entries and random row mixing
    fam3 = ctx.family("C18.bounded.pivot_patterns", BOUNDED, "native", "contracts on matrices realising every pivot-column pattern (random free entries, random invertible row mixing, tall and wide)")
    fam3.exhaustive = False
    import itertools

    def realise(n, piv, tall):
        r = len(piv)
        Bm = np.zeros((r, n), dtype=np.int8)
        for t, c in enumerate(piv):
            Bm[t, c] = 1
            for f in range(c + 1, n):
                if f not in piv:
                    Bm[t, f] = rng.integers(0, 2)
        m = (n + 1 + int(rng.integers(0, 4))) if tall else max(r, 1)
        A = np.zeros((max(m, r, 1), n), dtype=np.int8)
        A[:r] = Bm
        for _ in range(3 * A.shape[0]):           # invertible row mixing keeps the row space
            a, b = rng.integers(0, A.shape[0], 2)
            if a != b:
                A[a] ^= A[b]
        return A

    patterns = []
    for n in ((4, 8, 12) if ctx.quick else (4, 8, 10, 12, 14)):
        cols = range(n)
        if n <= 10 or not ctx.quick:
            patterns += [(n, p) for r in range(n + 1) for p in itertools.combinations(cols, r)] if n <= (12 if not ctx.quick else 8) else []
        if n > 8 and ctx.quick or n > 12:
            patterns += [(n, p) for r in list(range(0, 5)) + list(range(n - 3, n + 1)) for p in itertools.combinations(cols, r)]
    for n in (16, 20, 24):
        patterns += [(n, p) for r in (0, 1, 2, 3) + ((4,) if not ctx.quick else ()) for p in itertools.combinations(range(n), r)]
        patterns += [(n, tuple(c for c in range(n) if c not in q)) for r in (0, 1, 2) for q in itertools.combinations(range(n), r)]
    def pattern_job(chunk):
        res = []
        for n, piv in chunk:
            for tall in (True, False):
                A = realise(n, list(piv), tall)
                res.append((contract_ok(A.copy()), n, piv, tall, A if True else None))
        return [(ok, n, piv, tall, None if ok else A.tolist()) for ok, n, piv, tall, A in res]

    for res in core.pmap(pattern_job, core.chunked(patterns, 64), chunks=1):
        for ok, n, piv, tall, A in res:
            ctx.record(fam3, PROVED if ok else REFUTED, {"columns": n, "pivots": list(piv), "tall": tall} if fam3.total < 2 else None)
            if not ok:
                ctx.violate(fam3, f"pivots:{n}:{piv}:{tall}", f"{len(A)}x{n} matrix with pivot columns {list(piv)} violates the f2_algebra contracts",
                            {"args": [{"ndarray": A, "dtype": "int8"}], "pivots": list(piv)})
    dtype_family(ctx)
    # rref_and_basis_change beyond the symbolically proved shapes
    fam4 = ctx.family("C18.bounded.rref_and_basis_change_random", BOUNDED, "native", "R = rref(A), M*A = R, M*Minv = I, Minv*M = I on random matrices up to 12x12 (int8 and int64 input)")
    fam4.exhaustive = False
    for t in range(100 if ctx.quick else 1500):
        m, n = int(rng.integers(1, 13)), int(rng.integers(1, 13))
        A = (rng.random((m, n)) < rng.choice([0.2, 0.5, 0.8])).astype(np.int8 if t % 2 else np.int64)
        A0 = A.copy()
        try:
            R, Mx, Minv = f2.rref_and_basis_change(A)
            eye = np.eye(m, dtype=np.int64)
            ok = np.array_equal(np.asarray(R) % 2, f2.rref(A0.copy())[0]) and np.array_equal((Mx.astype(np.int64) @ (A0.astype(np.int64) % 2)) % 2, np.asarray(R).astype(np.int64) % 2) \
                and np.array_equal((Mx.astype(np.int64) @ Minv.astype(np.int64)) % 2, eye) and np.array_equal((Minv.astype(np.int64) @ Mx.astype(np.int64)) % 2, eye) and np.array_equal(A, A0)
        except Exception:
            ok = False
        ctx.record(fam4, PROVED if ok else REFUTED, {"shape": [m, n]} if t < 2 else None)
        if not ok:
            ctx.violate(fam4, f"rabc:{m}x{n}:{A0.tobytes().hex()[:24]}", f"rref_and_basis_change on a random {m}x{n} matrix violates its contract", {"args": [{"ndarray": A0.tolist(), "dtype": str(A0.dtype)}]})
    # call histories: the same entries presented in another shape / dtype right after each other must not influence each other
    fam2 = ctx.family("C18.bounded.call_history", BOUNDED, "native", "contracts hold for each call of a sequence of calls on matrices sharing their flattened entries")
    fam2.exhaustive = False
    for t in range(40 if ctx.quick else 300):
        m, n = int(rng.integers(1, 9)), int(rng.integers(1, 9))
        A = (rng.random((m, n)) < 0.5).astype(np.int8)
        seq = [A, A.reshape(n, m).copy(), A.reshape(1, m * n).copy(), A.reshape(m * n, 1).copy(), A.copy()]
        oks = [contract_ok(x.copy()) for x in seq]
        ok = all(oks)
        ctx.record(fam2, PROVED if ok else REFUTED, {"shapes": [list(x.shape) for x in seq]} if t < 2 else None)
        if not ok:
            bad = seq[oks.index(False)]
            ctx.violate(fam2, f"history:{m}x{n}:{A.tobytes().hex()[:24]}",
                        f"after calls on matrices with the same flattened entries, the {bad.shape[0]}x{bad.shape[1]} call violates the f2_algebra contracts (call history leaks)",
                        {"args": [{"ndarray": bad.tolist(), "dtype": "int8"}], "sequence": [x.tolist() for x in seq]})


DTYPES = ("bool", "int8", "uint8", "int16", "int32", "int64", "uint32")


def _dtype_contracts(A):
    """all four routines on one 0/1 matrix of any integer / boolean dtype; returns the name of the first violated clause or None"""
    import htstabilizer.f2_algebra as f2
    A0 = A.copy()
    Ai = A0.astype(np.int64)
    m, n = A.shape
    try:
        Bm, piv = f2.rref(A)
        if not (isinstance(Bm, np.ndarray) and Bm.shape == (m, n)):
            return "rref: shape"
        Bi = np.asarray(Bm).astype(np.int64)
        if not (set(np.unique(Bi)) <= {0, 1} and bool(C.L.B(C.L.rref_form(Bi.astype(np.int8), list(piv)))) and C.native_same_kernel(Ai.astype(np.int8), Bi.astype(np.int8))):
            return "rref: not the reduced row echelon form of the row space"
        r = f2.rank(A)
        if r != len(piv):
            return "rank"
        K = f2.null_space(A)
        if not (isinstance(K, np.ndarray) and K.ndim == 2 and K.shape == (n - r, n)):
            return "null_space: shape"
        Ki = K.astype(np.int64)
        if ((Ai @ Ki.T) % 2).any() or (K.shape[0] and len(C._rowspace_key(Ki)) != n - r):
            return "null_space: not a basis of the kernel"
        R, Mx, Minv = f2.rref_and_basis_change(A)
        eye = np.eye(m, dtype=np.int64)
        Ri = np.asarray(R).astype(np.int64) % 2
        if not (np.array_equal(Ri, Bi) and np.array_equal((Mx.astype(np.int64) @ Ai) % 2, Ri) and np.array_equal((Mx.astype(np.int64) @ Minv.astype(np.int64)) % 2, eye)
                and np.array_equal((Minv.astype(np.int64) @ Mx.astype(np.int64)) % 2, eye)):
            return "rref_and_basis_change"
        if not (np.array_equal(A, A0) and A.dtype == A0.dtype):
            return "argument modified"
    except Exception as e:
        return f"raised {type(e).__name__}: {e}"
    return None


def _dtype_job(args):
    m, n, lo, hi = args
    out = []
    for code in range(lo, hi):
        bits = np.array([(code >> i) & 1 for i in range(m * n)], dtype=np.int8).reshape(m, n)
        for dt in DTYPES:
            A = bits.astype(dt)
            bad = _dtype_contracts(A)
            if bad is None:
                bad = _dtype_contracts(np.asfortranarray(A))          # column-major copy of the same matrix (for one row / one column it is the same layout)
                if bad is not None:
                    bad += " [Fortran-ordered input]"
            if bad is not None:
                out.append((m, n, code, dt, bad))
    return (hi - lo) * len(DTYPES), out


def dtype_family(ctx):
    """GROUND: the element type of a 'binary matrix' is part of the input.  EVERY 0/1 matrix with m*n <= 10 (thorough: 13) entries, in seven integer / boolean dtypes
    (bool and int64 also in Fortran order), through all four routines."""
    fam = ctx.family("C18.ground.all_small_matrices_all_dtypes", core.GROUND, "native+oracle",
                     "rref / rank / null_space / rref_and_basis_change contracts (values, argument unmodified) on every 0/1 matrix of the listed sizes in dtypes " + ", ".join(DTYPES) + ", each in C and Fortran order")
    fam.exhaustive = True
    cap = 10 if ctx.quick else 13
    fam.domain = f"all shapes m x n with m*n <= {cap}: every 0/1 matrix x {len(DTYPES)} dtypes"
    jobs = []
    for m in range(1, cap + 1):
        for n in range(1, cap // m + 1):
            tot = 1 << (m * n)
            step = 256
            jobs += [(m, n, lo, min(tot, lo + step)) for lo in range(0, tot, step)]
    for cnt, bad in core.pmap(_dtype_job, jobs, chunks=4):
        ctx.record(fam, PROVED, {"matrices_x_dtypes": cnt} if fam.total == 0 else None, n=cnt - len(bad))
        for m, n, code, dt, why in bad:
            A = [[(code >> (i * n + j)) & 1 for j in range(n)] for i in range(m)]
            ctx.record(fam, REFUTED, {"shape": [m, n], "dtype": dt})
            ctx.violate(fam, f"dtype:{m}x{n}:{code}:{dt}", f"{m}x{n} 0/1 matrix {A} of dtype {dt}: {why}", {"args": [{"ndarray": A, "dtype": dt, "order": "F" if "Fortran" in why else "C"}], "clause": why})


def replay(data):
    import htstabilizer.f2_algebra as f2
    inp = data.get("input") or {}
    args = inp.get("args")
    if not args:
        print("replay file carries no failing input (obligation:", data.get("obligation"), ")")
        print(data.get("detail"))
        return 1
    arrs = [np.array(a["ndarray"], dtype=a.get("dtype", "int8"), order=a.get("order", "C")) for a in args]
    if (data.get("obligation") or "").endswith("all_small_matrices_all_dtypes"):
        bad = _dtype_contracts(arrs[0])
        print("contracts on", arrs[0].tolist(), arrs[0].dtype, "F-order" if arrs[0].flags.f_contiguous and not arrs[0].flags.c_contiguous else "C-order", "->", bad or "hold")
        return 1 if bad else 0
    name = data["key"].split("[")[0].split(":")[0]
    print("replaying", data["key"], "on the real function")
    if name in ("pivots", "bounded", "history", "rabc") or "sequence" in inp:
        seq = [np.array(x, dtype=np.int8) for x in inp["sequence"]] if "sequence" in inp else arrs
        bad = [(_dtype_contracts(x.copy()), x.shape) for x in seq]
        bad = [b for b in bad if b[0]]
        for why, shp in bad:
            print(f"REPRODUCED on a {shp[0]}x{shp[1]} matrix: {why}")
        return 1 if bad else 0
    if name.startswith(("rref", "bounded")) and len(arrs) == 1:
        ok, info = C._native_rref_ok(arrs[0])
        try:
            K = f2.null_space(arrs[0].copy())
            r = f2.rank(arrs[0].copy())
            ok2 = isinstance(K, np.ndarray) and K.ndim == 2 and K.shape == (arrs[0].shape[1] - r, arrs[0].shape[1])
        except Exception as e:
            ok2 = False
        print("rref contract holds:", ok, "| null_space typed/shape holds:", ok2)
        return 0 if ok and ok2 else 1
    if name.startswith("null_space"):
        K = f2.null_space(arrs[0].copy())
        r = f2.rank(arrs[0].copy())
        n = arrs[0].shape[1]
        ok = isinstance(K, np.ndarray) and K.ndim == 2 and K.shape == (n - r, n) and K.dtype.kind in "iub"
        print("null_space(", arrs[0].tolist(), ") ->", repr(K), "contract holds:", ok)
        return 0 if ok else 1
    print("input:", [a.tolist() for a in arrs], "native result recorded:", inp.get("native_result"))
    return 1
