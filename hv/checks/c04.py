"""C04 - two-qubit cost and depth depend only on connectivity and LC class, and equal the lookup metadata.

Contracts:
  get_preparation_circuit / get_readout_circuit  post: (two-qubit count with SWAP=3, ASAP two-qubit depth) of the returned
        circuit == (cost, depth) of stabilizer_circuit_lookup(n, conn, id) where id is the class of the target state decided
        by the ORACLE (LC orbit), so members of one class (local Clifford images, any signs, any generators) get identical
        values;  preparation = (only X gates) followed by inverse(readout): the sign correction adds no two-qubit gate
  table metadata truthful: C17.cost / C17.depth (checked there for every line; re-evaluated here for the advertised tables)
  M9: ASAP two-qubit depth is invariant under reversal and under single-qubit gates (used for readout = inverse)
  glue (SYM, token terms): _get_preparation_circuit_modulo_phase returns exactly cancel(compose(table circuit, inverse(layer word))) or raises - for every
        input and every n - so the two-qubit content of every delivered circuit is that of the table entry of the state's class
Domain: as C01/C03 (all groups x signs for n<=4 exhaustive in the thorough tier; every class with seeded members above).
"""
from __future__ import annotations
import time
from .. import core, e2e, adapt
from ..core import GROUND, BOUNDED, PROVED, REFUTED
from ..oracle import pauli as P, graphs as G, docs


def table_job(cfg):
    n, conn = cfg
    import htstabilizer.circuit_lookup as cl
    out = []
    for k in range(docs.CLASS_COUNT[n]):
        info = cl.stabilizer_circuit_lookup(n, conn, k)
        g = adapt.gates_of(info.parse_circuit())
        c, d = P.two_qubit_cost(g), P.two_qubit_depth(n, g)
        rev = P.two_qubit_depth(n, P.inverse_gates(g))
        ok = (c, d) == (info.cost, info.depth) and rev == d
        out.append((ok, f"meta:{n}:{conn}:{k}", f"{n}-{conn} id {k}: metadata {(info.cost, info.depth)} vs actual {(c, d)} (reversed depth {rev})",
                    {"n": n, "connectivity": conn, "class_id": k}))
    return out


def run(ctx: core.Ctx):
    import htstabilizer.stabilizer_circuits as sc
    import htstabilizer.circuit_lookup as cl
    for f in (sc.get_preparation_circuit, sc.get_readout_circuit, sc._get_preparation_circuit_modulo_phase, cl.stabilizer_circuit_lookup, cl.StabilizerCircuitInfo):
        ctx.under_contract(f)
    ctx.selfcheck["oracle_gate_rules_checked_densely"] = P.selftest()
    t = time.time()
    fam = ctx.family("C04.metadata_truthful", GROUND, "native+oracle", "lookup cost/depth = actual count/depth of the table circuit, depth invariant under reversal (M9 instance)")
    fam.exhaustive = True
    fam.domain = "7326 entries of the 20 advertised tables"
    for res in core.pmap(table_job, docs.ADVERTISED, chunks=1):
        for ok, key, what, rp in res:
            ctx.record(fam, PROVED if ok else REFUTED, rp if fam.total < 2 else None)
            if not ok:
                ctx.violate(fam, key, what, rp)
    from .. import prereq, symrun
    prereq.pipeline_contracts(ctx)       # glue code (all n), layer-search segment contracts (all inputs), purity of the pipeline functions
    jobs, desc = e2e.build_jobs(ctx)
    results = core.pmap(e2e.eval_state, jobs)
    e2e.book(ctx, results, ("C04.", "Q4."), lambda fam, n: GROUND if n <= 3 or (n == 4 and not ctx.quick) else (GROUND if n == 4 and "readout" in fam else BOUNDED))
    # compressed circuits: cost and depth of compress_preparation_circuit(c) = metadata of the class of c|0>, for inputs on every register layout
    from .c07 import circuit_jobs, eval_circuit, LAYOUTS
    cj = [j for j in circuit_jobs(ctx) if len(j) > 3 or len(j[2]) > 2 or j[0] == 2]
    for r, j in zip(core.pmap(eval_circuit, cj), cj):
        small = len(j[2]) <= 2 and j[0] <= 3
        for famname, ok, key, what, rp in r:
            if not famname.startswith("C04."):
                continue
            fam = ctx.family(famname + (".le2gates_le3qubits_all_register_layouts" if small else ".seeded_circuits"), GROUND if small else BOUNDED, "native+oracle",
                             "two-qubit cost and depth of the compressed circuit equal the lookup metadata of the class of circuit|0>")
            fam.exhaustive = small
            ctx.record(fam, PROVED if ok else REFUTED, {"circuit": rp["circuit"][:60], "register_layout": rp.get("register_layout")} if fam.total < 2 else None)
            if not ok:
                ctx.violate(fam, key[:300], what, rp)
    ctx.extra["register_layouts"] = list(LAYOUTS)
    ctx.extra["domains"] = desc
    ctx.extra["ground_time_s"] = round(time.time() - t, 2)
    ctx.trust("oracle gate counting / ASAP depth / tableau simulator / LC orbits", "M9 (depth invariant under reversal and single-qubit gates)", "Q3")
    ctx.assume("class of a state = oracle LC orbit; orbit -> class id through the representative graphs (C06)",
               "n=5,6: every class with seeded members/signs - BOUNDED; the general statement follows from the frame lemma "
               "(delivered = table circuit + single-qubit gates: C02.frame, C16.to_circuit, sign layer only X) and C17")
    return core.finish(ctx, "proof", "top-level cost/depth contract vs lookup metadata on completely enumerated domains (n<=4) + all table entries",
                       "Cost and depth of delivered circuits compared with the metadata of the oracle-determined class.", "./check C04 --tier " + ctx.tier)


def replay(data):
    inp = data["input"]
    if "job" in inp and "circuit" in inp:
        from .c07 import eval_circuit
        n, conn, gl, layout = inp["job"]
        bad = [r for r in eval_circuit((n, conn, [(nm, list(q)) for nm, q in gl], layout)) if not r[1] and r[0].startswith("C04")]
        for r in bad:
            print("REPRODUCED:", r[0], r[3])
        return 1 if bad else 0
    if "paulis" not in inp:
        bad = [r for r in table_job((inp["n"], inp["connectivity"])) if not r[0] and r[1] == data["key"]]
        for r in bad:
            print("REPRODUCED:", r[2])
        return 1 if bad else 0
    gens = [P.from_label(l) for l in inp["paulis"]]
    res = e2e.eval_state((inp["n"], inp["connectivity"], gens, inp.get("format", "matrix"), None))
    bad = [r for r in res if not r[1] and r[0].startswith("C04")]
    for r in bad:
        print("REPRODUCED:", r[0], r[3])
    return 1 if bad else 0
