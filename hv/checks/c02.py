"""C02 - every delivered circuit uses two-qubit gates only on coupled qubit pairs.

Contracts:
  connectivity_support.get_connectivity_graph(n, c)   post: edge set = the documented coupling graph (table transcribed from
                                                       the property statement / README, hv/oracle/docs.py)            [20 configs]
  table / MUB line (n, c, k)                          every multi-qubit token is a two-qubit gate on an edge          [all lines]
  find_local_clifford_layer.local_clifford_layer_to_circuit   frame: emits only single-qubit gates h, s               [all 6 blocks x positions]
  get_preparation_circuit / get_readout_circuit / get_mub_circuits / compress_preparation_circuit
                                                      post: every multi-qubit gate of the returned circuit is a 2-qubit gate on an edge
  stabilizer_measurement_circuit / full_state_tomography_circuits with measured_qubits = q
                                                      post: the readout part's two-qubit gates act on (q[a], q[b]) with (a, b) an edge
Lemma: delivered circuit = table circuit (on edges) composed with single-qubit gates, possibly inverted (Q3/Q4 keep qubit
pairs), so the statement holds for every input; the end-to-end clauses re-check it on the C01 domain.
"""
from __future__ import annotations
import itertools, random, time
import numpy as np
from .. import core, e2e, adapt
from ..core import GROUND, BOUNDED, PROVED, REFUTED
from ..oracle import pauli as P, graphs as G, docs


def off_edge(n, conn, gates, mapping=None):
    edges = set(docs.coupling_edges(n, conn))
    bad = []
    for nm, q in gates:
        if nm in P.IGNORED or len(q) < 2:
            continue
        if len(q) != 2:
            bad.append((nm, q))
            continue
        a, b = q
        if mapping is not None:
            if a not in mapping or b not in mapping:
                bad.append((nm, q))
                continue
            a, b = mapping[a], mapping[b]
        if tuple(sorted((a, b))) not in edges:
            bad.append((nm, q))
    return bad


def config_job(cfg):
    n, conn = cfg
    import htstabilizer.circuit_lookup as cl
    from htstabilizer.connectivity_support import get_connectivity_graph
    from htstabilizer.mub_circuits import get_mub_circuits
    out = []
    g = get_connectivity_graph(n, conn)
    got = sorted((int(i), int(j)) for i in range(n) for j in range(i + 1, n) if int(g.adjacency_matrix[i, j]) == 1)
    simple = g.num_vertices == n and np.array_equal(g.adjacency_matrix, g.adjacency_matrix.T) and not np.diag(g.adjacency_matrix).any()
    out.append(("C02.graph", got == docs.coupling_edges(n, conn) and simple and got == sorted(g.get_edges()), f"graph:{n}:{conn}",
                f"get_connectivity_graph({n},{conn!r}) edges {got} != documented {docs.coupling_edges(n, conn)}", {"n": n, "connectivity": conn}))
    for k in range(docs.CLASS_COUNT[n]):
        gates = adapt.gates_of(cl.stabilizer_circuit_lookup(n, conn, k).parse_circuit())
        bad = off_edge(n, conn, gates)
        out.append(("C02.table", not bad, f"table:{n}:{conn}:{k}", f"stabilizer{n}-{conn} entry {k}: multi-qubit gates off the coupling graph {bad[:3]}",
                    {"n": n, "connectivity": conn, "class_id": k}))
    for i, qc in enumerate(get_mub_circuits(n, conn)):
        bad = off_edge(n, conn, adapt.gates_of(qc))
        out.append(("C02.mub", not bad, f"mub:{n}:{conn}:{i}", f"mub{n}-{conn} circuit {i}: multi-qubit gates off the coupling graph {bad[:3]}",
                    {"n": n, "connectivity": conn, "mub_index": i}))
    return out


def compose_job(cfg):
    """measured-qubit lists: readout gates land on (q[a], q[b])"""
    n, conn, seed, quick = cfg
    from qiskit import QuantumCircuit
    from htstabilizer.stabilizer import Stabilizer
    from htstabilizer.tomography import stabilizer_measurement_circuit, full_state_tomography_circuits
    import htstabilizer.lc_classes as lcc
    rnd = random.Random(seed)
    out = []
    lists = [None, list(range(n)), list(reversed(range(n))), [(i + 1) % n for i in range(n)]]
    for N in (n + 1, 8):
        for _ in range(2 if quick else 6):
            lists.append(rnd.sample(range(N), n))
    LC = {2: lcc.LCClass2, 3: lcc.LCClass3, 4: lcc.LCClass4, 5: lcc.LCClass5, 6: lcc.LCClass6}[n]
    ids = list(range(docs.CLASS_COUNT[n]))
    rnd.shuffle(ids)
    ids = ids[:3 if quick else 12] + [docs.CLASS_COUNT[n] - 1]
    # gate vocabulary coverage: every multi-qubit gate name that occurs in a table circuit of this configuration is presented with every measured-qubit list
    # (a mapping slip in the handling of ONE gate name shows only on the classes whose circuit uses it): up to 4 classes per gate name, SWAP classes first
    import htstabilizer.circuit_lookup as cl
    by_name = {}
    for k in range(docs.CLASS_COUNT[n]):
        toks, _ = adapt.read_tokens(cl.stabilizer_circuit_lookup(n, conn, k).circuit_string)
        for nm in {t[0] for t in toks if len(t[1]) > 1}:
            by_name.setdefault(nm, []).append(k)
    for nm, ks in sorted(by_name.items()):
        rnd.shuffle(ks)
        ids += ks[:4 if quick else 12]
    ids = list(dict.fromkeys(ids))
    from qiskit import QuantumRegister
    for ql in lists:
        N = n if ql is None else max(max(ql) + 1, n)
        mapping = {q: i for i, q in enumerate(ql)} if ql is not None else None
        # the measured list may be given as ints or as Qubit objects (documented), on a circuit with one or several registers
        variants = [("ints", None)]
        if ql is not None:
            variants.append(("qubit-objects", None))
            if N >= 2:
                cut = rnd.randrange(1, N)
                variants += [("ints", cut), ("qubit-objects", cut)]
        for style, cut in variants:
            prep = QuantumCircuit(N) if cut is None else QuantumCircuit(QuantumRegister(cut, "a"), QuantumRegister(N - cut, "b"))
            arg = ql if (ql is None or style == "ints") else [prep.qubits[i] for i in ql]
            rp = {"n": n, "connectivity": conn, "measured_qubits": ql, "register": N, "given_as": style, "registers": [N] if cut is None else [cut, N - cut]}
            tag = f"{ql}:{style}:{cut}"
            try:
                circs = full_state_tomography_circuits(prep, conn, arg)
                bad = [b for c in circs for b in off_edge(n, conn, adapt.gates_of(c), mapping)]
                ok = not bad and len(circs) == 2 ** n + 1
                what = f"full_state_tomography_circuits on {n}-{conn} with measured_qubits={ql} ({style}, registers {rp['registers']}): gates not on mapped edges {bad[:3]}"
            except Exception as e:
                ok, what = False, f"full_state_tomography_circuits raised {type(e).__name__}: {e} (measured_qubits={ql}, {style})"
            out.append(("C02.compose.tomography", ok, f"compose-fst:{n}:{conn}:{tag}", what, rp))
            for k in ids:
                st = Stabilizer(LC(k).get_graph())
                try:
                    c = stabilizer_measurement_circuit(prep, st, conn, arg)
                    bad = off_edge(n, conn, adapt.gates_of(c), mapping)
                    ok, what = not bad, f"stabilizer_measurement_circuit on {n}-{conn} class {k} measured_qubits={ql} ({style}, registers {rp['registers']}): gates not on mapped edges {bad[:3]}"
                except Exception as e:
                    ok, what = False, f"stabilizer_measurement_circuit raised {type(e).__name__}: {e} (measured_qubits={ql}, {style})"
                out.append(("C02.compose.stabilizer_measurement", ok, f"compose-smc:{n}:{conn}:{k}:{tag}", what, dict(rp, class_id=k)))
    return out


def layer_frame(ctx):
    from htstabilizer.find_local_clifford_layer import local_clifford_layer_to_circuit, generate_local_clifford_symplectic
    ctx.under_contract(local_clifford_layer_to_circuit)
    fam = ctx.family("C02.frame.layer_single_qubit_only", GROUND, "native", "local_clifford_layer_to_circuit emits only h/s on the block's own qubit, for each of the 6 invertible blocks at each position")
    fam.exhaustive = True
    fam.domain = "6 blocks x n positions x n=1..6 (each qubit's block is handled independently by the loop body)"
    for n in range(1, 7):
        for pos in range(n):
            for blk in G.SIX:
                cs = [[1, 0, 0, 1]] * n
                cs = [list(c) for c in cs]
                cs[pos] = list(blk)
                qc = local_clifford_layer_to_circuit(generate_local_clifford_symplectic(cs))
                gates = adapt.gates_of(qc)
                ok = all(nm in ("h", "s") and q == [pos] for nm, q in gates)
                ctx.record(fam, PROVED if ok else REFUTED, {"n": n, "pos": pos, "block": blk} if fam.total < 2 else None)
                if not ok:
                    ctx.violate(fam, f"layer:{n}:{pos}:{blk}", f"layer circuit for block {blk} at qubit {pos} of {n}: {gates}", {"n": n, "pos": pos, "block": list(blk)})


def run(ctx: core.Ctx):
    from htstabilizer import connectivity_support as cs, mub_circuits, tomography, stabilizer_circuits as sc
    for f in (cs.get_connectivity_graph, cs.assert_connectivity_is_supported, mub_circuits.get_mub_circuits, sc.get_preparation_circuit,
              sc.get_readout_circuit, sc.compress_preparation_circuit, tomography.stabilizer_measurement_circuit, tomography.full_state_tomography_circuits):
        ctx.under_contract(f)
    t = time.time()
    DESC = {"C02.graph": "coupling graph = documented edge set", "C02.table": "table circuit two-qubit gates on edges",
            "C02.mub": "MUB circuit two-qubit gates on edges"}
    for res in core.pmap(config_job, docs.ADVERTISED, chunks=1):
        for famname, ok, key, what, rp in res:
            fam = ctx.family(famname, GROUND, "native+oracle", DESC.get(famname, ""))
            fam.exhaustive = True
            ctx.record(fam, PROVED if ok else REFUTED, rp if fam.total < 2 else None)
            if not ok:
                ctx.violate(fam, key, what, rp)
    layer_frame(ctx)
    for res in core.pmap(compose_job, [(n, c, ctx.seed + i, ctx.quick) for i, (n, c) in enumerate(docs.ADVERTISED)], chunks=1):
        for famname, ok, key, what, rp in res:
            fam = ctx.family(famname, BOUNDED, "native+oracle", "readout gates land on (q[a], q[b]) for table pairs (a,b); seeded qubit lists")
            fam.exhaustive = False
            ctx.record(fam, PROVED if ok else REFUTED, rp if fam.total < 2 else None)
            if not ok:
                ctx.violate(fam, key, what, rp)
    jobs, desc = e2e.build_jobs(ctx)
    results = core.pmap(e2e.eval_state, jobs)
    e2e.book(ctx, results, ("C02.", "Q4."), lambda fam, n: GROUND if n <= 4 else BOUNDED)
    # compressed circuits
    from .c07 import circuit_jobs, eval_circuit
    cres = core.pmap(eval_circuit, circuit_jobs(ctx, small=True))
    e2e.book(ctx, cres, ("C02.",), lambda fam, n: BOUNDED)
    ctx.extra["domains"] = desc
    ctx.extra["ground_time_s"] = round(time.time() - t, 2)
    ctx.trust("coupling table transcribed from the property statement (hv/oracle/docs.py)", "Q3/Q4: qiskit compose / inverse / InverseCancellation keep each gate's qubit pair "
              "(observed on every produced circuit, not proved)")
    ctx.assume("measured-qubit lists: identity, reversed, rotation and seeded injective lists into registers of up to 8 qubits - BOUNDED",
               "n=5,6 end-to-end: every class with seeded members - BOUNDED; all inputs covered by the frame lemma over C02.table / C02.mub / C02.frame.*")
    return core.finish(ctx, "proof", "frame contracts + complete enumeration of tables, MUB files and coupling graphs; end-to-end scan of produced circuits",
                       "All table and MUB circuits, all 20 coupling graphs, the single-qubit-only frame of the layer synthesiser, and every circuit produced on the C01 domain.",
                       "./check C02 --tier " + ctx.tier)


def replay(data):
    inp = data["input"]
    key = data["key"]
    cfg = (inp["n"], inp["connectivity"])
    hits = []
    if key.startswith(("graph:", "table:", "mub:")):
        hits = [r for r in config_job(cfg) if not r[1] and r[2] == key]
    elif key.startswith("compose-"):
        hits = [r for r in compose_job(cfg + (0, False)) if not r[1]]
        hits += [r for r in compose_job(cfg + (1, False)) if not r[1]]
    elif "paulis" in inp:
        gens = [P.from_label(l) for l in inp["paulis"]]
        hits = [r for r in e2e.eval_state((inp["n"], inp["connectivity"], gens, inp.get("format", "matrix"), None)) if not r[1] and r[0].startswith("C02")]
    for r in hits:
        print("REPRODUCED:", r[3])
    return 1 if hits else 0
