"""C19 - graph and class codecs are bijective, local complementation is faithful.

The property quantifies over finite sets (all simple graphs on 2..6 labelled vertices x all vertices; all class ids; all
grouping indices); the contracts below are discharged on those sets completely (GROUND, sizes measured).

  Graph.compress()                post: = sum of 2^pos(i,j) over edges, pos = row-major upper-triangle position (documented layout)
  Graph.decompress(n, id)         post: adjacency = {pairs whose bit is set}; symmetric 0/1 int8, zero diagonal, n vertices
  compress . decompress = id on 0..2^(n(n-1)/2)-1 ;  decompress . compress = id on all simple graphs
  Graph.local_complementation(v)  post: toggles exactly the pairs inside N(v); involution; result simple - for graphs built from C-ordered, Fortran-ordered,
                                  transposed and sliced adjacency arrays (the constructor keeps the caller's array, so the layout is part of the input)
  Graph.local_complemented(v)     post: fresh object equal to the above; self unmodified
  lc.same_class                   the classifier gives G and LC_v(G) the same id, and the oracle exhibits the local Clifford
                                  (sqrt(X)-type on v, S on N(v)) mapping one graph state's group onto the other's
  LCClassN(id).id() == id for all ids; ids in use are exactly 0..K-1 (count() == K = 2,5,18,93,760)
  linear_index.from_X(to_X(i)) == i for every grouping type and every index; images pairwise different
"""
from __future__ import annotations
import itertools
import time
import numpy as np
from .. import core
from ..core import GROUND, PROVED, REFUTED
from ..oracle import graphs as G, docs


def _np_adj(n, adj):
    a = np.zeros((n, n), dtype=np.int8)
    for i in range(n):
        for j in range(n):
            a[i, j] = (adj[i] >> j) & 1
    return a


def _adj_of(graph):
    n = graph.num_vertices
    m = graph.adjacency_matrix
    return tuple(sum((int(m[i, j]) & 1) << j for j in range(n)) for i in range(n)), m


def _is_simple_np(m, n):
    return m.shape == (n, n) and m.dtype.kind in "iub" and np.array_equal(m, m.T) and not np.diag(m).any() and set(np.unique(m)) <= {0, 1}


def chunk_graphs(args):
    n, lo, hi = args
    from htstabilizer.graph import Graph
    from htstabilizer.stabilizer import Stabilizer
    import htstabilizer.lc_classes as lcc
    res = {}       # family -> [n_ok, [failures (key, what, replay)]]

    def rec(fam, ok, key, what, rp):
        r = res.setdefault(fam, [0, 0, []])
        r[0] += 1
        if ok:
            r[1] += 1
        elif len(r[2]) < 20:
            r[2].append((key, what, rp))

    cls = {}
    for gid in range(lo, hi):
        adj = G.adj_from_id(n, gid)
        # decompress
        g = Graph.decompress(n, gid)
        a2, m2 = _adj_of(g)
        rec("C19.decompress.post", a2 == adj and g.num_vertices == n and _is_simple_np(m2, n), f"decompress:{n}:{gid}",
            f"Graph.decompress({n},{gid}) adjacency {m2.tolist()} differs from the documented bit layout", {"n": n, "graph_id": gid})
        # compress on an independently built graph
        g0 = Graph(_np_adj(n, adj))
        c = g0.compress()
        rec("C19.compress.post", c == gid, f"compress:{n}:{gid}", f"compress() of graph with documented id {gid} returned {c}", {"n": n, "graph_id": gid})
        rec("C19.codec.roundtrip", g.compress() == gid and Graph.decompress(n, c) == g0, f"roundtrip:{n}:{gid}",
            f"compress/decompress do not round-trip for id {gid}", {"n": n, "graph_id": gid})
        cid = lcc.determine_lc_class(Stabilizer(g0.copy())).id() if n >= 2 else 0
        cls[gid] = cid
        rows0 = [(x, z) for x, z, _ in G.graph_state_gens(n, adj)]
        base_arr = _np_adj(n, adj)
        big = np.zeros((n + 2, n + 3), dtype=np.int8)
        big[1:n + 1, 2:n + 2] = base_arr
        for v in range(n):
            want = G.lc(n, adj, v)
            # the in-place operation on graphs built from every memory layout an int8 adjacency array can have (the constructor keeps the caller's array)
            okl = True
            for arr in (np.asfortranarray(base_arr.copy()), base_arr.copy().T, big.copy()[1:n + 1, 2:n + 2]):
                hl = Graph(arr)
                hl.local_complementation(v)
                al, ml = _adj_of(hl)
                okl = okl and al == want and np.array_equal(ml, ml.T) and not np.diag(ml).any() and set(np.unique(ml)) <= {0, 1}
            h = g0.copy()
            h.local_complementation(v)
            ah, mh = _adj_of(h)
            okp = okl and ah == want and _is_simple_np(mh, n)
            h2 = h.copy()
            h2.local_complementation(v)
            okp = okp and _adj_of(h2)[0] == adj
            before = g0.adjacency_matrix.copy()
            h3 = g0.local_complemented(v)
            okp = okp and _adj_of(h3)[0] == want and h3 is not g0 and h3.adjacency_matrix is not g0.adjacency_matrix and np.array_equal(before, g0.adjacency_matrix)
            rec("C19.lc.post", okp, f"lc:{n}:{gid}:{v}", f"local complementation of graph {gid} at vertex {v} is wrong "
                f"(got rows {ah}, want {want}) or not an involution / not fresh", {"n": n, "graph_id": gid, "vertex": v})
            # oracle witness: local Clifford sqrt(X) on v, S on N(v) maps the graph state group onto that of LC_v(G)
            layer = [5 if q == v else (2 if (adj[v] >> q) & 1 else 0) for q in range(n)]
            k1 = G.canon_keys(n, G.apply_layer_unsigned(n, rows0, layer))
            k2 = G.canon_keys(n, [(x, z) for x, z, _ in G.graph_state_gens(n, want)])
            wid = G.id_from_adj(n, want)
            rec("C19.lc.same_class", k1 == k2 and (wid not in cls or cls[wid] == cid), f"lcclass:{n}:{gid}:{v}",
                f"LC at {v} of graph {gid}: oracle witness layer fails ({k1 == k2}) or class id changes", {"n": n, "graph_id": gid, "vertex": v})
    return res, cls


def run(ctx: core.Ctx):
    from htstabilizer.graph import Graph
    import htstabilizer.lc_classes as lcc
    import htstabilizer.linear_index as li
    for f in (Graph.compress, Graph.decompress, Graph.local_complementation, Graph.local_complemented, Graph.copy, Graph.has_edge,
              Graph.add_edge, lcc.LCClassBase.id, lcc.LCClassBase._from_id, lcc.LCClassBase.get_LC_type, lcc.LCClassBase.count):
        ctx.under_contract(f)
    ctx.selfcheck["oracle_graph_selftest"] = G.selftest()
    DESC = {"C19.decompress.post": "adjacency = documented bit layout; simple int8 graph", "C19.compress.post": "id = documented bit layout",
            "C19.codec.roundtrip": "mutually inverse", "C19.lc.post": "toggles exactly pairs inside N(v); involution; simple; fresh copy API",
            "C19.lc.same_class": "same class id; oracle exhibits the local Clifford witness"}
    jobs = []
    for n in range(2, 7):
        total = 1 << (n * (n - 1) // 2)
        step = max(1, total // 32)
        jobs += [(n, lo, min(total, lo + step)) for lo in range(0, total, step)]
    t = time.time()
    results = core.pmap(chunk_graphs, jobs, chunks=1)
    allcls = {}
    for (n, lo, hi), (res, cls) in zip(jobs, results):
        allcls.setdefault(n, {}).update(cls)
        for famname, (tot, ok, fails) in res.items():
            fam = ctx.family(famname, GROUND, "native+oracle", DESC.get(famname, ""))
            fam.exhaustive = True
            fam.domain = "all simple graphs on 2..6 labelled vertices (x all vertices for lc.*)"
            ctx.record(fam, PROVED, {"n": n, "graph_ids": [lo, hi]}, n=ok)
            for key, what, rp in fails:
                ctx.record(fam, REFUTED, rp)
                ctx.violate(fam, key, what, rp)
            missing = tot - ok - len(fails)
            if missing > 0:
                ctx.record(fam, REFUTED, None, n=missing)
    # class id constant along every LC edge (across chunk boundaries) and partition = oracle orbits
    fam = ctx.family("C19.lc.class_partition", GROUND, "native+oracle", "classifier id is constant on every oracle LC orbit and differs between orbits")
    fam.exhaustive = True
    for n in range(2, 7):
        orbit_of, reps = G.orbit_table(n)
        seen = {}
        ok = True
        bad = None
        for gid, cid in allcls[n].items():
            o = orbit_of[gid]
            if seen.setdefault(o, cid) != cid:
                ok, bad = False, gid
                break
        if ok and len(set(seen.values())) != len(seen):
            ok, bad = False, "two orbits share an id"
        ctx.record(fam, PROVED if ok else REFUTED, {"n": n, "orbits": len(seen), "graphs": len(allcls[n])})
        if not ok:
            ctx.violate(fam, f"partition:{n}", f"n={n}: class ids are not constant on LC orbits / not distinct between orbits (graph {bad})", {"n": n, "graph": bad})
    # class ids
    fam = ctx.family("C19.class_id.roundtrip", GROUND, "native", "LCClassN(id).id() == id; count() == K")
    fam.exhaustive = True
    fam.domain = "all 878 class ids"
    LC = {2: lcc.LCClass2, 3: lcc.LCClass3, 4: lcc.LCClass4, 5: lcc.LCClass5, 6: lcc.LCClass6}
    for n, cls in LC.items():
        okc = cls.count() == docs.CLASS_COUNT[n]
        ctx.record(fam, PROVED if okc else REFUTED, {"n": n, "count": cls.count()})
        if not okc:
            ctx.violate(fam, f"count:{n}", f"LCClass{n}.count() = {cls.count()}, expected {docs.CLASS_COUNT[n]}", {"n": n})
        for k in range(docs.CLASS_COUNT[n]):
            try:
                ok = cls(k).id() == k and cls(k).num_qubits() == n
            except Exception as e:
                ok = False
            ctx.record(fam, PROVED if ok else REFUTED, {"n": n, "id": k} if k < 1 else None)
            if not ok:
                ctx.violate(fam, f"classid:{n}:{k}", f"LCClass{n}({k}).id() != {k}", {"n": n, "id": k})
        # (what the constructors do with ids outside 0..K-1 is not part of the property and is not checked)
    # linear index codecs
    fam = ctx.family("C19.linear_index.from_to", GROUND, "native", "from_X(to_X(i)) == i for every i < count; to_X images pairwise different; a partition of range(n)")
    fam.exhaustive = True
    fam.domain = "every index of every grouping type used by LCClass2..6"
    for n, cls in LC.items():
        for nm, com in cls.combinatorics.items():
            ctx.under_contract(com["from_lin_idx1"])
            ctx.under_contract(com["to_lin_idx"])
            imgs = []
            for i in range(com["count"]):
                try:
                    r = com["from_lin_idx1"](i)
                    back = com["to_lin_idx"](r)
                    flat = sorted(r.flatten())
                    ok = back == i and (flat == list(range(n)) or nm.startswith("C" + str(n)) and flat == [] or (com["count"] == 1 and flat == []))
                    imgs.append(repr(r))
                except Exception as e:
                    ok, back = False, repr(e)
                ctx.record(fam, PROVED if ok else REFUTED, {"n": n, "type": nm, "index": i} if i == 0 else None)
                if not ok:
                    ctx.violate(fam, f"linidx:{n}:{nm}:{i}", f"{nm}: from(to({i})) = {back} or not a partition of range({n})", {"n": n, "type": nm, "index": i})
            okd = len(set(imgs)) == len(imgs)
            ctx.record(fam, PROVED if okd else REFUTED, None)
            if not okd:
                ctx.violate(fam, f"linidx-distinct:{n}:{nm}", f"{nm}: two indices decode to the same grouping", {"n": n, "type": nm})
    # a grouping is a set partition: however its groups are listed, encoding and decoding must give back the same partition
    fam = ctx.family("C19.linear_index.presentation_independent", GROUND, "native",
                     "for every index i and every listing order p of the groups of to_X(i): to_X(from_X(p)) is the same set partition as p, and from_X(to_X(from_X(p))) == from_X(p)")
    fam.exhaustive = True
    fam.domain = "every index of every grouping type used by LCClass2..6 x all reorderings of equal-size groups"

    def _partition(r):
        return sorted(tuple(sorted(t.data)) for grp in r.groups for t in grp)

    for n, cls in LC.items():
        for nm, com in cls.combinatorics.items():
            for i in range(com["count"]):
                r = com["from_lin_idx1"](i)
                per_size = [list(itertools.permutations(g)) for g in r.groups]
                for combo in itertools.product(*per_size):
                    items = [li.NTuple(list(t.data)) for grp in combo for t in grp]
                    pres = li.Repr(items) if items else li.Repr()
                    try:
                        j = com["to_lin_idx"](pres)
                        back = com["from_lin_idx1"](j)
                        ok = 0 <= j < com["count"] and _partition(back) == _partition(pres) and com["to_lin_idx"](back) == j
                        got = f"index {j} which decodes to {back!r}"
                    except Exception as e:
                        ok, got = False, f"{type(e).__name__}: {e}"
                    ctx.record(fam, PROVED if ok else REFUTED, {"n": n, "type": nm, "index": i} if fam.total < 2 else None)
                    if not ok:
                        ctx.violate(fam, f"linidx-pres:{n}:{nm}:{i}:{pres!r}", f"{nm}: the grouping {pres!r} (a listing of index {i}) encodes to {got}",
                                    {"n": n, "type": nm, "index": i, "grouping": [list(t.data) for grp in pres.groups for t in grp],
                                     "python": f"from htstabilizer import linear_index as li; print(li.{com['to_lin_idx'].__name__}(li.Repr({[list(t.data) for grp in pres.groups for t in grp]})))"})
    fam = ctx.family("C19.linear_index.n_choose_2", GROUND, "native", "linear_index_to_n_choose2_to / from_n_choose_2 are mutually inverse (float sqrt not modelled: whole finite domain enumerated)")
    fam.exhaustive = True
    ctx.under_contract(li.linear_index_from_n_choose_2)
    ctx.under_contract(li.linear_index_to_n_choose2_to)
    for n in range(2, 8):
        idx = 0
        for i in range(n):
            for j in range(i + 1, n):
                ok = li.linear_index_from_n_choose_2(n, i, j) == idx and tuple(int(x) for x in li.linear_index_to_n_choose2_to(n, idx)) == (i, j)
                ctx.record(fam, PROVED if ok else REFUTED, {"n": n, "pair": [i, j]} if idx == 0 else None)
                if not ok:
                    ctx.violate(fam, f"nc2:{n}:{i}:{j}", f"n choose 2 index of ({i},{j}) for n={n} wrong", {"n": n, "i": i, "j": j})
                idx += 1
    ctx.extra["ground_time_s"] = round(time.time() - t, 2)
    ctx.trust("oracle graph codec / local complementation / LC-orbit BFS (hv/oracle/graphs.py), self-tested every run",
              "CPython, numpy")
    ctx.assume("graphs are built for the check with Graph(adjacency ndarray) - that constructor is itself part of the decompress.compress round trip")
    return core.finish(ctx, "proof", "contract obligations discharged by complete enumeration of the finite domains (GROUND)",
                       "Every codec / local-complementation contract is evaluated on every graph on 2..6 vertices and every vertex, every class id and "
                       "every grouping index, against an independent bitmask implementation.", "./check C19 --tier " + ctx.tier)


def replay(data):
    from htstabilizer.graph import Graph
    inp = data["input"]
    n, gid = inp.get("n"), inp.get("graph_id")
    import htstabilizer.lc_classes as lcc
    import htstabilizer.linear_index as li
    LC = {2: lcc.LCClass2, 3: lcc.LCClass3, 4: lcc.LCClass4, 5: lcc.LCClass5, 6: lcc.LCClass6}
    if "grouping" in inp:                      # linear_index.presentation_independent
        com = LC[n].combinatorics[inp["type"]]
        pres = li.Repr([li.NTuple(list(g)) for g in inp["grouping"]]) if inp["grouping"] else li.Repr()
        try:
            j = com["to_lin_idx"](pres)
            back = com["from_lin_idx1"](j)
            part = lambda r: sorted(tuple(sorted(t.data)) for grp in r.groups for t in grp)
            ok = part(back) == part(pres) and com["to_lin_idx"](back) == j
            print(f"{inp['type']}: grouping {inp['grouping']} encodes to {j}, which decodes to {back!r}: {'same partition' if ok else 'ANOTHER partition - REPRODUCED'}")
        except Exception as e:
            ok = False
            print("REPRODUCED: raised", type(e).__name__, e)
        return 0 if ok else 1
    if "type" in inp and "index" in inp:       # linear_index.from_to
        com = LC[n].combinatorics[inp["type"]]
        r = com["from_lin_idx1"](inp["index"])
        back = com["to_lin_idx"](r)
        print(f"{inp['type']}: index {inp['index']} -> {r!r} -> {back}")
        return 0 if back == inp["index"] else 1
    if "id" in inp and gid is None:            # class_id.roundtrip
        got = LC[n](inp["id"]).id()
        print(f"LCClass{n}({inp['id']}).id() = {got}")
        return 0 if got == inp["id"] else 1
    if "i" in inp and "j" in inp:              # n choose 2 codec
        idx = li.linear_index_from_n_choose_2(n, inp["i"], inp["j"])
        back = tuple(int(x) for x in li.linear_index_to_n_choose2_to(n, idx))
        print(f"pair ({inp['i']},{inp['j']}) of {n}: index {idx} -> {back}")
        return 0 if back == (inp["i"], inp["j"]) else 1
    if gid is None:
        print("no single failing input in this replay file (obligation:", data.get("obligation"), "): rerun ./check C19")
        return 1
    res, _ = chunk_graphs((n, gid, gid + 1))
    bad = [(f, r[2]) for f, r in res.items() if r[2]]
    for f, fl in bad:
        for key, what, _ in fl:
            print("REPRODUCED:", what)
    return 1 if bad else 0
