"""C12 - stabilizer measurement reports the true, correctly signed expectation values.   (technique: see hv/tomo.py)

Contracts:
  tomography.stabilizer_measurement_circuit(prep, stabilizer, conn)   post: circuit = prep ; readout circuit ; measure qubit i -> clbit i;
                                                                        metadata carries the readout circuit
  StabilizerMeasurementFitter.expectation_values()   post: exactly 2^n entries; keys = unsigned elements of the stabilizer group incl. identity (=1);
                                                     value(P) = sigma * sum_b (-1)^{s.b} c_b / sum_b c_b  with U P U^dagger = sigma Z^s
  (CircuitResult.__init__, _compute_expectation_value, z_pauli_from_bitstring are executed as part of it on symbolic counts)
Domain: every class of every advertised configuration (a seeded local-Clifford image with seeded signs and generators each).
"""
from __future__ import annotations
import random, time
from .. import core, adapt, tomo, e2e
from ..core import SYM, GROUND, PROVED, REFUTED
from ..oracle import pauli as P, graphs as G, docs


def measure_map(qc):
    return [(qc.find_bit(i.qubits[0]).index, qc.find_bit(i.clbits[0]).index) for i in qc.data if i.operation.name == "measure"]


def job(args):
    n, conn, orb, seed = args[:4]
    variant = args[4] if len(args) > 4 else "mixed"
    vk = "" if variant == "mixed" else ":" + variant
    from qiskit import QuantumCircuit
    from htstabilizer.tomography import stabilizer_measurement_circuit, StabilizerMeasurementFitter
    rnd = random.Random(seed)
    gid = G.orbit_table(n)[1][orb]
    rows = [(x, z) for x, z, _ in G.graph_state_gens(n, G.adj_from_id(n, gid))]
    rows = G.apply_layer_unsigned(n, rows, [rnd.randrange(6) for _ in range(n)])
    if variant == "mixed":
        rows = e2e.generator_changes(n, rows, rnd, 1)[0]
    else:
        rows = e2e.weighted_generating_set(n, rows, rnd, heavy=(variant == "heavy"))
    gens = [(x, z, rnd.randrange(2)) for x, z in rows]
    st = e2e.mk_stabilizer(n, gens)
    label = [P.to_label(n, g) for g in gens]
    rp = {"n": n, "connectivity": conn, "paulis": label, "job": [n, conn, orb, seed, variant]}
    out = []
    circ = stabilizer_measurement_circuit(QuantumCircuit(n), st, conn)
    ro = adapt.gates_of(circ.metadata["readout info"].circuit)
    body = [g for g in adapt.gates_of(circ) if g[0] not in P.IGNORED]
    mm = measure_map(circ)
    ok_asm = body == ro and mm == [(i, i) for i in range(n)] and circ.metadata["readout info"].qubits is None
    out.append(("C12.circuit_assembly", ok_asm, f"asm:{n}:{conn}:{orb}{vk}", f"measurement circuit for {label} on {n}-{conn}: body != readout circuit or measure map {mm}", rp))
    def symbolic():
        counts = tomo.symbolic_counts(n, "c")
        if seed % 3 == 0:
            # a Result holding several circuits: the documented `result_index` selects this circuit's counts (the other entries are decoys)
            decoy = {k: 17 for k in counts}
            ri = 1 + (seed // 3) % 2
            res = [decoy, decoy, decoy]
            res[ri] = counts
            vals = StabilizerMeasurementFitter(tomo.FakeResult(res), circ, result_index=ri).expectation_values()
        else:
            vals = StabilizerMeasurementFitter(tomo.FakeResult(counts), circ).expectation_values()
        probs = tomo.check_fitter_dict(vals, ro, n, n, None, "c", True)
        keys = {tomo.pauli_to_xz(k)[:2] for k in vals}
        grp = {(x, z) for x, z, _ in P.group_elements(n, gens)}
        if keys != grp:
            probs.append("keys are not exactly the unsigned elements of the given stabilizer group")
        return probs

    ok, probs = tomo.symbolic_or_withdraw(symbolic, lambda: StabilizerMeasurementFitter(tomo.FakeResult(tomo.dense_concrete(n, 1, rnd)[0]), circ).expectation_values())
    out.append(("C12.fitter.values", ok, f"fit:{n}:{conn}:{orb}{vk}", f"stabilizer measurement of {label} on {n}-{conn}: {probs[:3]}", rp))
    # the same contract on concrete results (absent keys for outcomes that never occurred): deterministic outcomes, two-outcome results, dense counts, float probabilities
    for tag, cl in tomo.concrete_sets(n, 1, rnd, all_deltas=n <= 3, light=True):
        try:
            if tag.startswith("two-outcome"):
                vals = StabilizerMeasurementFitter(tomo.FakeResult([{tomo.key_of(0, n): 5}, {tomo.key_of(0, n): 5}, cl[0]]), circ, result_index=2).expectation_values()
            else:
                vals = StabilizerMeasurementFitter(tomo.FakeResult(cl[0]), circ).expectation_values()
            pc = tomo.check_concrete(vals, [(ro, n, None, True)], cl, n)
        except Exception as e:
            pc = [f"fitter raised {type(e).__name__}: {e}"]
        out.append(("C12.fitter.values.concrete_results", not pc, f"conc:{n}:{conn}:{orb}{vk}:{tag}", f"stabilizer measurement of {label} on {n}-{conn}, {tag}: {pc[:3]}",
                    dict(rp, counts=tag, first_counts={k: v for k, v in list(cl[0].items())[:4]})))
    return out


def run(ctx: core.Ctx):
    import htstabilizer.tomography as T
    for f in (T.stabilizer_measurement_circuit, T.StabilizerMeasurementFitter.expectation_values, T.CircuitResult.__init__,
              T._compute_expectation_value, T.z_pauli_from_bitstring):
        ctx.under_contract(f)
    ctx.selfcheck["oracle_gate_rules_checked_densely"] = P.selftest()
    from ..contracts import pipeline as _pl
    from .. import symrun as _sr
    _sr.run(ctx, _pl.tomography_glue_tasks(), label="tomography-glue")      # density_matrix() = linear inversion of expectation_values(), for every input
    from .. import prereq
    prereq.pipeline_contracts(ctx)       # the readout circuit exists and is correct for EVERY valid stabilizer (glue + layer-search contracts), not only the sampled members
    rnd = random.Random(ctx.seed + 12)
    jobs = []
    for n, conn in docs.ADVERTISED:
        orbs = list(range(docs.CLASS_COUNT[n]))
        if ctx.quick and n == 6:
            rnd.shuffle(orbs)
            orbs = sorted(orbs[:120])
        jobs += [(n, conn, o, rnd.randrange(1 << 30)) for o in orbs]
        # generator lists made of the heaviest / lightest group elements (product and sign bookkeeping on many qubits at once)
        if n >= 4:
            sub = orbs if (n < 6 or not ctx.quick) else orbs[:40]
            jobs += [(n, conn, o, rnd.randrange(1 << 30), v) for o in sub for v in (("heavy", "light") if n < 6 or not ctx.quick else ("heavy",))]
    t = time.time()
    for res in core.pmap(job, jobs):
        for famname, ok, key, what, rp in res:
            conc = famname.endswith("concrete_results")
            fam = ctx.family(famname, GROUND if conc else SYM, "native+oracle" if conc else "native-exec+linear-normal-form+oracle")
            fam.exhaustive = True
            fam.domain = ("every class of every advertised configuration (one seeded member each)" if not ctx.quick else
                          "every class for n<=5, 120 seeded classes per 6-qubit configuration (one seeded member each)") + \
                ("; concrete results: deterministic outcomes (all for n<=3), two-outcome results, dense counts, float probabilities; absent keys" if conc else "; ALL outcome distributions (symbolic counts)")
            if ok is None:
                ctx.record(fam, core.UNKNOWN, rp)
                ctx.undecide(fam, what)
                continue
            ctx.record(fam, PROVED if ok else REFUTED, rp if fam.total < 2 else None)
            if not ok:
                ctx.violate(fam, key, what, rp)
    ctx.extra["ground_time_s"] = round(time.time() - t, 2)
    ctx.extra["cases"] = len(jobs)
    tomo.prep_variants(ctx, "C12", False)
    ctx.trust("oracle tableau simulator", "M7: if U P U^dagger = sigma Z^s then Tr(rho P) = sigma sum_b (-1)^{s.b} <b|U rho U^dagger|b>",
              "Q2/Q5 (qiskit Pauli.evolve, Pauli data layout, hashing) and Q6 (little-endian count keys): assumed; the keys and signs the real code derives "
              "through them are compared with the oracle's, so a misreading surfaces as a refuted obligation")
    ctx.assume("exact statistics: counts proportional to the outcome distribution; float arithmetic treated as real (values are exact quotients here)",
               "members of a class other than the seeded one are covered by C03 (readout diagonalises the group for all inputs) plus this value contract")
    return core.finish(ctx, "proof", "real fitter executed on symbolic counts (exact linear forms), compared with the oracle's pull-back and sign",
                       "Every expectation value is an exact quotient of linear forms in the outcome counts and equals the contract for all outcome distributions.",
                       "./check C12 --tier " + ctx.tier)


def replay(data):
    if "variant" in data.get("input", {}):
        return tomo.replay_prep_variant(data["input"])
    inp = data["input"]
    bad = [r for r in job(tuple(inp["job"])) if r[1] is False]
    for r in bad:
        print("REPRODUCED:", r[3])
    return 1 if bad else 0
