"""C09 - MUB families are complete, index-aligned with their circuits and cost-truthful.

Contracts (GROUND over the 20 advertised configurations, all bases, all group elements):
  mub_circuits.get_mubs(n, c)          post: 2^n+1 lists of n Pauli strings (n letters IXYZ, optional leading sign); each a commuting independent set
  mub_circuits.get_mub_circuits(n, c)  post: 2^n+1 circuits on n qubits
  partition                            the (2^n+1)(2^n-1) non-identity group elements (mod sign) are pairwise different, hence are all
                                       4^n-1 non-identity Paulis, each in exactly one basis group (exact counting)
  diagonal[i]                          circuit i conjugates every element of group i to +/- a Z-type Pauli (oracle)
  aligned                              bases and circuits come from the same file line (independent reader of the file)
  circuit_lookup.MUBInfo               post: header fields / per-line parse = independent reader
  mub_circuits.get_mub_info(n, c)      post: "num circuits" = 2^n+1, max count / max depth / average = oracle values of the returned circuits
  results_are_fresh_copies             bases / circuits handed out (also the first ones after a cold start) share no mutable object with the cache
  not_worse[i]                         two-qubit count of MUB circuit i <= count of get_readout_circuit(Stabilizer(basis i), c)
"""
from __future__ import annotations
import time
from .. import core, adapt
from ..core import GROUND, PROVED, REFUTED
from ..oracle import pauli as P, graphs as G, docs


def config_job(cfg):
    n, conn = cfg
    from htstabilizer.mub_circuits import get_mubs, get_mub_circuits, get_mub_info
    from htstabilizer.stabilizer import Stabilizer
    from htstabilizer.stabilizer_circuits import get_readout_circuit
    import os
    out = []
    rp0 = {"n": n, "connectivity": conn}

    def rec(fam, ok, key, what, extra=None):
        out.append((fam, bool(ok), f"{fam}:{n}:{conn}:{key}", what, dict(rp0, **(extra or {}))))

    # ownership: the very first results after a cold start (and later ones) share no mutable object with the lookup cache, and survive caller mutation
    import htstabilizer.circuit_lookup as clk
    from .c13 import reach_mutable, mutate, canon
    for order in ((get_mubs, get_mub_circuits), (get_mub_circuits, get_mubs)):
        clk.mub_file_cache.pop(f"mub{n}-{conn}.txt", None)
        firsts = [f(n, conn) for f in order]
        snap = [canon(x) for x in firsts]
        cache_ids = set(reach_mutable(clk.mub_file_cache))
        shared = [f.__name__ for f, x in zip(order, firsts) if set(reach_mutable(x)) & cache_ids]
        for x in firsts:
            mutate(x)
        try:
            again = [canon(f(n, conn)) for f in order]
        except Exception as e:
            again = f"later call raised {type(e).__name__}: {e}"
        rec("C09.results_are_fresh_copies", not shared and again == snap, order[0].__name__,
            f"{n}-{conn}: first results after a cold start alias the lookup cache ({shared}) or a caller's mutation of them changes later results")
    clk.mub_file_cache.pop(f"mub{n}-{conn}.txt", None)
    mubs = get_mubs(n, conn)
    circs = get_mub_circuits(n, conn)
    info = get_mub_info(n, conn)
    rec("C09.count", len(mubs) == 2 ** n + 1 and len(circs) == 2 ** n + 1, "", f"{n}-{conn}: {len(mubs)} bases, {len(circs)} circuits, expected {2 ** n + 1}")
    # independent reader of the file
    lines = adapt.read_lines(os.path.join(adapt.DATA, f"mub{n}-{conn}.txt"))
    header = lines[0].split(":")
    body = [l for l in lines[1:] if l != ""]
    rec("C09.file_shape", len(header) == 3 and all(h.strip().isdigit() for h in header) and len(body) == 2 ** n + 1, "",
        f"mub{n}-{conn}.txt: header {lines[0]!r}, {len(body)} basis lines")
    seen = {}
    costs, depths = [], []
    for i in range(min(len(mubs), len(circs))):
        basis = mubs[i]
        okb = isinstance(basis, list) and len(basis) == n and all(isinstance(s, str) and len(s.lstrip("+-")) == n and len(s) - n <= 1 and set(s.lstrip("+-")) <= set("IXYZ") for s in basis)
        gens = [P.from_label(s) for s in basis] if okb else []
        okb = okb and P.is_valid_stabilizer(n, gens)
        rec("C09.valid_basis", okb, i, f"{n}-{conn} basis {i} = {basis} is not a commuting independent set of n Pauli strings", {"mub_index": i})
        if not okb:
            continue
        gates = adapt.gates_of(circs[i])
        if i < len(body):
            parts = body[i].split(":")
            toks, bad = adapt.read_tokens(parts[1] if len(parts) == 2 else "")
            rec("C09.aligned", len(parts) == 2 and parts[0].split(",") == basis and adapt.circuit_key(toks) == adapt.circuit_key(gates) and not bad, i,
                f"{n}-{conn}: basis/circuit {i} returned by the API differ from line {i + 1} of the file", {"mub_index": i})
        els = P.group_elements(n, gens)
        rec("C09.diagonal", all(P.conj_circuit(e, gates)[0] == 0 for e in els) and circs[i].num_qubits == n, i,
            f"{n}-{conn}: circuit {i} does not diagonalise the group of basis {basis}", {"mub_index": i, "basis": basis})
        dup = None
        for x, z, _ in els[1:]:
            if (x, z) in seen:
                dup = ((x, z), seen[(x, z)])
            seen[(x, z)] = i
        rec("C09.partition.disjoint", dup is None, i, f"{n}-{conn}: basis {i} shares the Pauli {P.to_label(n, dup[0] + (0,), False) if dup else ''} with basis {dup[1] if dup else ''}", {"mub_index": i})
        c = P.two_qubit_cost(gates)
        costs.append(c)
        depths.append(P.two_qubit_depth(n, gates))
        ro = adapt.gates_of(get_readout_circuit(Stabilizer(list(basis)), conn))
        rec("C09.not_worse", c <= P.two_qubit_cost(ro), i, f"{n}-{conn}: MUB circuit {i} uses {c} two-qubit gates, the library's readout circuit for the same basis {P.two_qubit_cost(ro)}",
            {"mub_index": i, "basis": basis})
    rec("C09.partition.complete", len(seen) == 4 ** n - 1, "", f"{n}-{conn}: the basis groups cover {len(seen)} of {4 ** n - 1} non-identity Paulis")
    if costs:
        want = {"num circuits": 2 ** n + 1, "max two-qubit count": max(costs), "max two-qubit depth": max(depths),
                "average two-qubit count": sum(costs) / (2 ** n + 1)}
        ok = all(k in info for k in want) and info["num circuits"] == want["num circuits"] and info["max two-qubit count"] == want["max two-qubit count"] \
            and info["max two-qubit depth"] == want["max two-qubit depth"] and abs(info["average two-qubit count"] - want["average two-qubit count"]) < 1e-12
        rec("C09.info", ok, "", f"{n}-{conn}: get_mub_info {info} vs actual {want}")
        rec("C09.header", len(header) == 3 and [int(h) for h in header] == [sum(costs), max(costs), max(depths)] if all(h.strip().isdigit() for h in header) else False, "",
            f"mub{n}-{conn}.txt header {lines[0]!r} vs actual total/max/maxdepth {[sum(costs), max(costs), max(depths)]}")
    return out


def run(ctx: core.Ctx):
    import htstabilizer.mub_circuits as mc
    import htstabilizer.circuit_lookup as cl
    for f in (mc.get_mubs, mc.get_mub_circuits, mc.get_mub_info, cl.MUBInfo, cl.mub_circuit_lookup, cl.parse_circuit):
        ctx.under_contract(f)
    ctx.selfcheck["oracle_gate_rules_checked_densely"] = P.selftest()
    t = time.time()
    for res in core.pmap(config_job, docs.ADVERTISED, chunks=1):
        for famname, ok, key, what, rp in res:
            fam = ctx.family(famname, GROUND, "native+oracle")
            fam.exhaustive = True
            fam.domain = "20 advertised configurations x all 2^n+1 bases x all 2^n group elements"
            ctx.record(fam, PROVED if ok else REFUTED, rp if fam.total < 2 else None)
            if not ok:
                ctx.violate(fam, key, what, rp)
    # reports / bases / circuits of ALL configurations requested first and examined afterwards, in one process (the documented use of get_mub_info is comparing
    # configurations): every object handed out must still describe its own configuration when the others have been requested, and no two of them share a mutable part
    from .c13 import reach_mutable
    fam = ctx.family("C09.reports_held_across_configurations", GROUND, "native+oracle",
                     "get_mub_info / get_mubs / get_mub_circuits for all 20 configurations collected first, verified afterwards; pairwise no shared mutable object")
    fam.exhaustive = True
    fam.domain = "the 20 advertised configurations, in file order and in reverse order"
    for order in (list(docs.ADVERTISED), list(reversed(docs.ADVERTISED))):
        held = {cfg: (mc.get_mub_info(*cfg), mc.get_mubs(*cfg), mc.get_mub_circuits(*cfg)) for cfg in order}
        owners = {}
        for cfg in order:
            n, conn = cfg
            info, mubs, circs = held[cfg]
            costs = [P.two_qubit_cost(adapt.gates_of(c)) for c in circs]
            depths = [P.two_qubit_depth(n, adapt.gates_of(c)) for c in circs]
            try:
                ok = len(mubs) == 2 ** n + 1 and len(circs) == 2 ** n + 1 and info["num circuits"] == 2 ** n + 1 and info["max two-qubit count"] == max(costs) \
                    and info["max two-qubit depth"] == max(depths) and abs(info["average two-qubit count"] - sum(costs) / (2 ** n + 1)) < 1e-12 \
                    and all(c.num_qubits == n for c in circs) and all(len(b) == n for b in mubs)
            except Exception:
                ok = False
            shared = []
            for label, obj in (("info", info), ("mubs", mubs), ("circuits", circs)):
                for i in reach_mutable(obj):
                    if i in owners and owners[i] != (cfg, label):
                        shared.append((owners[i], (cfg, label)))
                    owners.setdefault(i, (cfg, label))
            ok = ok and not shared
            ctx.record(fam, PROVED if ok else REFUTED, {"n": n, "connectivity": conn} if fam.total < 2 else None)
            if not ok:
                ctx.violate(fam, f"held:{n}:{conn}:{order[0]}", f"{n}-{conn}: the report / bases / circuits obtained earlier no longer describe this configuration after the other "
                            f"configurations were requested (report now {info}; actual max count {max(costs)}, max depth {max(depths)}, {2 ** n + 1} circuits), or share mutable objects: {shared[:2]}",
                            {"n": n, "connectivity": conn, "order_starts_with": list(order[0]),
                             "python": "infos = {c: get_mub_info(*c) for c in get_available_connectivities()}; print(infos)"})
    ctx.extra["ground_time_s"] = round(time.time() - t, 2)
    ctx.trust("oracle tableau simulator, gate counting, depth", "Q3")
    return core.finish(ctx, "proof", "contract obligations discharged by complete enumeration (20 files, all bases, all group elements)",
                       "The property's quantifier domain is finite and enumerated completely; partition by exact counting.", "./check C09 --tier " + ctx.tier)


def replay(data):
    inp = data["input"]
    if "order_starts_with" in inp:
        import htstabilizer.mub_circuits as mc
        infos = {c: mc.get_mub_info(*c) for c in docs.ADVERTISED}
        same = len({id(v) for v in infos.values()}) < len(infos)
        print("reports collected for all configurations:", {f"{k[0]}-{k[1]}": v for k, v in list(infos.items())[:3]}, "... distinct objects:", not same)
        return 1 if same or infos[(inp["n"], inp["connectivity"])]["num circuits"] != 2 ** inp["n"] + 1 else 0
    hits = [r for r in config_job((inp["n"], inp["connectivity"])) if not r[1] and r[2] == data["key"]]
    for r in hits:
        print("REPRODUCED:", r[3])
    return 1 if hits else 0
