"""C06 - the LC class id is a complete invariant of local-Clifford equivalence.

Let cnt_S(T) = number of elements of the stabilizer group S with support exactly T.
 1. accessor contracts: Stabilizer.expand / is_qubit_entangled (C15, SYM)
 2. C06.count_fns          count_identity_structures keys row pattern p by sum (1-p_i) 2^i (all 2^n patterns, n<=6) and its loop is `counts[key] += 1` followed by a
                           sort (AST frame) - a function of the MULTISET of rows; count_identity_string counts rows equal to a pattern
 3. C06.classifier.frame   the REAL determine_lc_class<n> is run on a representation-hiding stub that physically holds only (cnt, entangled flags): expand() yields
                           objects supporting exactly .T, |, == pattern, .all(axis=1), np.where (length only), row iteration; .phases/.R/.S raise.  Completing on it
                           proves the id is a function of (cnt, flags) - signs and generator choice cannot matter.  Run for the cnt of EVERY LC orbit representative;
                           the id returned must be the id filed for that orbit.
 4. C06.cnt.lc_invariant   each of the six invertible 2x2 blocks maps (x,z) != 0 to != 0 (24 cases), a layer acts linearly on the group (C15.expand) => cnt (and the
                           flags, by C15) are constant on local-Clifford orbits and independent of generators
 5. C06.roundtrip[n,id]    determine_lc_class(Stabilizer(LCClass<n>(id).get_graph())).id() == id          (all 878 ids)
 6. C06.orbit_bound[n]     the oracle's BFS over local complementations finds exactly K = 2,5,18,93,760 orbits; each local complementation is a local Clifford
                           (witness exhibited per (graph, vertex) in C19); every stabilizer group is an LC image of a graph state: by construction where all groups
                           are enumerated and count-checked (n<=5 always, n=6 thorough), otherwise by the first half of M5
 Lemma: by 3-4 the id is constant on orbits; by 5 the K representatives get K distinct ids, so lie in K distinct orbits; by 6 there are no more: orbit <-> id is a
 bijection onto 0..K-1 - same id <=> LC equivalent, no valid stabilizer reaches an `assert False`, and the representative graph is in its class.
 Independent cross-check not using the frame step:
 7. C06.ground.all_groups  EVERY group (n<=5; n=6 thorough) classified by the real classifier on a seeded generating set with seeded signs == the oracle's orbit id
    C06.ground.all_graphs  every graph state on 2..6 vertices == oracle orbit id
"""
from __future__ import annotations
import ast, inspect, itertools, random, textwrap, time
import numpy as np
from .. import core, adapt, e2e
from ..core import GROUND, BOUNDED, PROVED, REFUTED, UNKNOWN
from ..oracle import pauli as P, graphs as G, docs


# ---------------------------------------------------------------------------------------------- representation hiding stub

class FrameViolation(Exception):
    pass


class OnlyLen:
    def __init__(self, n):
        self._n = n

    def __len__(self):
        return self._n

    def __getattr__(self, name):
        raise FrameViolation(f"classifier used .{name} of an np.where result (only its length may matter)")

    def __getitem__(self, i):
        raise FrameViolation("classifier indexed into an np.where result")

    def __iter__(self):
        raise FrameViolation("classifier iterated over an np.where result")


class RowMask:
    """result of (signature == pattern).all(axis=1): only np.where / len-of-where is allowed"""

    def __init__(self, count):
        self._count = count

    def __array_function__(self, func, types, args, kwargs):
        if func is np.where and len(args) == 1:
            return (OnlyLen(self._count),)
        if func is np.flatnonzero:
            return OnlyLen(self._count)
        if func in (np.count_nonzero, np.sum) and len(args) == 1 and not kwargs:
            return self._count
        raise FrameViolation(f"classifier applied {getattr(func, '__name__', func)} to the row mask")

    def sum(self, *a, **k):
        if a or k:
            raise FrameViolation("classifier summed the row mask along an axis")
        return self._count

    def nonzero(self):
        return (OnlyLen(self._count),)

    def __getattr__(self, name):
        raise FrameViolation(f"classifier used .{name} of the row mask")


class ElemMask:
    def __init__(self, sig, pattern):
        self._sig, self._pattern = sig, pattern

    def all(self, axis=None):
        if axis != 1:
            raise FrameViolation("classifier reduced the comparison along another axis")
        return RowMask(self._sig._cnt.get(self._pattern, 0))

    def __getattr__(self, name):
        raise FrameViolation(f"classifier used .{name} of the elementwise comparison")


class Sig:
    """identity signature (X.T | Z.T): holds only the multiset cnt {support pattern: multiplicity}"""

    def __init__(self, n, cnt, order_seed=None):
        self._n, self._cnt, self._seed = n, dict(cnt), order_seed

    def __eq__(self, pattern):
        pat = tuple(int(v) for v in np.asarray(pattern).reshape(-1))
        if len(pat) != self._n or any(v not in (0, 1) for v in pat):
            raise FrameViolation(f"classifier compared the signature with {pattern}")
        return ElemMask(self, pat)

    def __iter__(self):
        rows = []
        for pat, c in sorted(self._cnt.items()):
            rows += [np.array(pat, dtype=np.int8) for _ in range(c)]
        if self._seed is not None:
            random.Random(self._seed).shuffle(rows)
        return iter(rows)

    def __hash__(self):
        return id(self)

    def __getattr__(self, name):
        raise FrameViolation(f"classifier used .{name} of the identity signature")


class HalfT:
    def __init__(self, sig):
        self._sig = sig

    def __or__(self, other):
        if not isinstance(other, HalfT):
            raise FrameViolation("X.T | something else")
        return self._sig

    def __getattr__(self, name):
        raise FrameViolation(f"classifier used .{name} of X.T / Z.T")


class Half:
    def __init__(self, sig):
        self._sig = sig

    @property
    def T(self):
        return HalfT(self._sig)

    def __getattr__(self, name):
        raise FrameViolation(f"classifier used .{name} of an expanded matrix")


class StubStabilizer:
    """a 'stabilizer' that physically contains only (n, entangled flags, cnt)"""

    def __init__(self, n, flags, cnt, order_seed=None):
        self.num_qubits = n
        self._flags = list(flags)
        self._sig = Sig(n, cnt, order_seed)

    def is_qubit_entangled(self, q):
        return self._flags[q]

    def expand(self):
        return Half(self._sig), Half(self._sig)

    def __getattr__(self, name):
        raise FrameViolation(f"classifier read stabilizer.{name}")


def cnt_of(n, gens):
    cnt = {}
    for x, z, _ in P.group_elements(n, gens):
        pat = tuple(((x | z) >> q) & 1 for q in range(n))
        cnt[pat] = cnt.get(pat, 0) + 1
    return cnt


def flags_of(n, gens):
    supp = {(x | z) for x, z, _ in P.group_elements(n, gens)}
    return [(1 << q) not in supp for q in range(n)]


def frame_job(args):
    n, orbs = args
    import htstabilizer.lc_classes as lcc
    cid = e2e.cid_map(n)
    orbit_of, reps = G.orbit_table(n)
    out = []
    for orb in orbs:
        gens = G.graph_state_gens(n, G.adj_from_id(n, reps[orb]))
        cnt, flags = cnt_of(n, gens), flags_of(n, gens)
        rp = {"n": n, "orbit": orb, "graph_id": reps[orb]}
        ids = []
        why = ""
        try:
            for seed in (None, 1, 2):
                ids.append(lcc.determine_lc_class(StubStabilizer(n, flags, cnt, seed)).id())
        except FrameViolation as e:
            why = f"frame violation: {e}"
        except Exception as e:
            why = f"raised {type(e).__name__}: {e}"
        ok = not why and len(set(ids)) == 1 and ids[0] == cid.get(orb)
        # an operation the stub does not offer is NOT evidence of a wrong id: the frame argument is withdrawn (UNDECIDED); a wrong id on the stub is a violation
        status = True if ok else (None if why.startswith("frame violation") else False)
        out.append(("C06.classifier.frame", status, f"frame:{n}:{orb}", f"n={n} orbit {orb} (graph {reps[orb]}): classifier on the (cnt, flags)-only stub -> {ids} {why}; filed id {cid.get(orb)}", rp))
    return out


def groups_job(args):
    n, items, seed = args
    import htstabilizer.lc_classes as lcc
    rnd = random.Random(seed)
    cid = e2e.cid_map(n)
    out = []
    bad = []
    for key, orb in items:
        rows = G.rows_from_key(n, key)
        if rnd.random() < 0.6:
            rows = e2e.generator_changes(n, rows, rnd, 1)[0]
        gens = [(x, z, rnd.randrange(2)) for x, z in rows]
        try:
            got = lcc.determine_lc_class(e2e.mk_stabilizer(n, gens)).id()
        except AssertionError as e:
            got = f"AssertionError {e}"
        except Exception as e:
            got = f"{type(e).__name__} {e}"
        if got != cid.get(orb):
            bad.append((gens, got, cid.get(orb, 'no id: no representative graph lies in this orbit')))
    return n, len(items), bad


def graphs_job(args):
    n, lo, hi = args
    import htstabilizer.lc_classes as lcc
    from htstabilizer.stabilizer import Stabilizer
    from htstabilizer.graph import Graph
    cid = e2e.cid_map(n)
    orbit_of, _ = G.orbit_table(n)
    bad = []
    rnd = random.Random(lo * 7919 + n)
    perms = [None, list(range(1, n)) + [0], list(range(n - 1, -1, -1))]
    cnt = 0
    for gid in range(lo, hi):
        st0 = Stabilizer(Graph.decompress(n, gid))
        rp_ = list(range(n))
        rnd.shuffle(rp_)
        # the graph-state generators K_v in their natural order and in other orders (cyclic shift, reversed, seeded permutation): the same group, hence the same class
        for perm in perms + [rp_]:
            cnt += 1
            try:
                st = st0 if perm is None else Stabilizer((st0.R[:, perm].copy(), st0.S[:, perm].copy()))
                got = lcc.determine_lc_class(st).id()
            except Exception as e:
                got = f"{type(e).__name__}"
            if got != cid.get(orbit_of[gid]):
                gl = G.graph_state_gens(n, G.adj_from_id(n, gid))
                bad.append((gid if perm is None else [gl[v] for v in perm], got, cid.get(orbit_of[gid], 'no id: no representative graph lies in this orbit')))
    return n, cnt, bad


def groups6_job(args):
    """n = 6: enumerate the groups of a slice of (orbit, layer prefix) on the fly, classify each distinct one"""
    orbs, seed = args
    import htstabilizer.lc_classes as lcc
    rnd = random.Random(seed)
    cid = e2e.cid_map(6)
    orbit_of, reps = G.orbit_table(6)
    total = 0
    bad = []
    for orb in orbs:
        rows0 = [(x, z) for x, z, _ in G.graph_state_gens(6, G.adj_from_id(6, reps[orb]))]
        seen = set()
        for layer in itertools.product(range(6), repeat=6):
            rows = G.apply_layer_unsigned(6, rows0, layer)
            key = G.canon_keys(6, rows)
            if key in seen:
                continue
            seen.add(key)
            gens = [(x, z, 0) for x, z in rows]
            try:
                got = lcc.determine_lc_class(e2e.mk_stabilizer(6, gens)).id()
            except Exception as e:
                got = type(e).__name__
            if got != cid.get(orb):
                bad.append((gens, got, cid.get(orb, 'no id')))
        total += len(seen)
    return 6, total, bad, len(orbs)


def run(ctx: core.Ctx):
    import htstabilizer.lc_classes as lcc
    for f in (lcc.determine_lc_class, lcc.determine_lc_class2, lcc.determine_lc_class3, lcc.determine_lc_class4, lcc.determine_lc_class5, lcc.determine_lc_class6,
              lcc.count_identity_string, lcc.count_identity_structures, lcc.bits, lcc.index_of_first_set_bit, lcc.all_but, lcc.LCClassBase.id, lcc.LCClassBase._from_id):
        ctx.under_contract(f)
    ctx.selfcheck["oracle_graph_selftest"] = G.selftest()
    t = time.time()
    LC = {2: lcc.LCClass2, 3: lcc.LCClass3, 4: lcc.LCClass4, 5: lcc.LCClass5, 6: lcc.LCClass6}
    # 2. count functions
    fam = ctx.family("C06.count_fns", GROUND, "native+ast", "count_identity_structures = histogram of rows keyed by sum (1-p_i) 2^i, order-insensitive; count_identity_string counts equal rows")
    fam.exhaustive = True
    fam.domain = "all 2^n row patterns for n = 2..6; AST of the accumulation loop"
    for n in range(2, 7):
        for pat in itertools.product((0, 1), repeat=n):
            sig = np.array([pat, pat, tuple(1 - v for v in pat)], dtype=np.int8)
            d = lcc.count_identity_structures(sig)
            k1 = sum((1 - v) << i for i, v in enumerate(pat))
            k2 = sum(v << i for i, v in enumerate(pat))
            want = {k1: 2, k2: 1} if k1 != k2 else {k1: 3}
            try:
                ok = dict(d) == want and lcc.count_identity_string(sig, list(pat)) == (2 if k1 != k2 else 3)
            except Exception:
                ok = False
            # contract of two INTERNAL helpers, used only by the frame argument below: if a helper changes its interface the argument is withdrawn (UNDECIDED) and the
            # exhaustive classification families decide whether the classifier is still right
            ctx.record(fam, PROVED if ok else UNKNOWN, {"pattern": pat} if fam.total < 2 else None)
            if not ok:
                ctx.undecide(fam, f"helper contract: count_identity_structures on rows {sig.tolist()} = {d}, the frame argument expects {want}")
    fn = ast.parse(textwrap.dedent(inspect.getsource(lcc.count_identity_structures))).body[0]
    loops = [x for x in ast.walk(fn) if isinstance(x, ast.For)]
    aug = [ast.unparse(x) for x in ast.walk(fn) if isinstance(x, ast.AugAssign)]
    okf = len(loops) == 1 and aug == ["counts[bitstring] += 1"] and "sorted(counts.items()" in ast.unparse(fn)
    ctx.record(fam, PROVED if okf else UNKNOWN, {"loop": aug})
    if not okf:
        ctx.undecide(fam, "structure drift in count_identity_structures (accumulation no longer `counts[bitstring] += 1` + sorted)")
    # 4. local Cliffords preserve supports
    fam = ctx.family("C06.cnt.lc_invariant", GROUND, "native", "each invertible 2x2 block maps (x,z) != (0,0) to != (0,0)")
    fam.exhaustive = True
    for blk in G.SIX:
        for x, z in itertools.product((0, 1), repeat=2):
            a, b, c, d = blk
            img = ((a & x) ^ (b & z), (c & x) ^ (d & z))
            ctx.record(fam, PROVED if ((x, z) != (0, 0)) == (img != (0, 0)) else REFUTED, {"block": blk, "xz": [x, z]} if fam.total < 2 else None)
    # 5 / 6
    fam = ctx.family("C06.roundtrip", GROUND, "native", "determine_lc_class(Stabilizer(LCClass<n>(id).get_graph())).id() == id; graph simple on n vertices")
    fam.exhaustive = True
    fam.domain = "all 878 class ids"
    from htstabilizer.stabilizer import Stabilizer
    for n, cls in LC.items():
        for k in range(docs.CLASS_COUNT[n]):
            try:
                g = cls(k).get_graph()
                m = g.adjacency_matrix
                simple = g.num_vertices == n and np.array_equal(m, m.T) and not np.diag(m).any() and set(np.unique(m)) <= {0, 1}
                got = lcc.determine_lc_class(Stabilizer(g)).id()
            except Exception as e:
                got, simple = repr(e), False
            ok = simple and got == k
            ctx.record(fam, PROVED if ok else REFUTED, {"n": n, "id": k} if fam.total < 2 else None)
            if not ok:
                ctx.violate(fam, f"roundtrip:{n}:{k}", f"LCClass{n}({k}).get_graph() is classified as {got} (simple graph: {simple})", {"n": n, "id": k})
    fam = ctx.family("C06.orbit_bound", GROUND, "oracle", "number of LC orbits of labelled graphs = K; representatives of distinct ids lie in distinct orbits")
    fam.exhaustive = True
    for n in range(2, 7):
        okb = len(G.orbit_table(n)[1]) == docs.CLASS_COUNT[n] == len(e2e.cid_map(n)) and sorted(e2e.cid_map(n).values()) == list(range(docs.CLASS_COUNT[n]))
        ctx.record(fam, PROVED if okb else REFUTED, {"n": n, "orbits": len(G.orbit_table(n)[1])})
        if not okb:
            ctx.violate(fam, f"orbits:{n}", f"n={n}: {len(G.orbit_table(n)[1])} LC orbits, {len(e2e.cid_map(n))} of them hit by representative graphs; expected {docs.CLASS_COUNT[n]}", {"n": n})
    # 3. frame
    jobs = []
    for n in range(2, 7):
        jobs += [(n, ch) for ch in core.chunked(range(docs.CLASS_COUNT[n]), 4 if n < 6 else 32)]
    for res in core.pmap(frame_job, jobs, chunks=1):
        for famname, ok, key, what, rp in res:
            fam = ctx.family(famname, GROUND, "native (representation-hiding stub)")
            fam.exhaustive = True
            fam.domain = "the (cnt, flags) of every LC orbit representative, n = 2..6 (878), three row orders each"
            if ok is None:
                ctx.record(fam, UNKNOWN, rp if fam.total < 2 else None)
                ctx.undecide(fam, what)
                continue
            ctx.record(fam, PROVED if ok else REFUTED, rp if fam.total < 2 else None)
            if not ok:
                ctx.violate(fam, key, what, rp)
    # 7. cross-check on all groups / all graphs
    rnd = random.Random(ctx.seed + 6)
    gj = []
    for n in range(2, 6):
        items = list(G.all_groups(n).items())
        gj += [(groups_job, (n, ch, rnd.randrange(1 << 30))) for ch in core.chunked(items, 8 if n < 5 else 64)]
    for n in range(2, 7):
        total = 1 << (n * (n - 1) // 2)
        step = max(1, total // 32)
        gj += [(graphs_job, (n, lo, min(total, lo + step))) for lo in range(0, total, step)]
    from .. import history, symrun
    symrun.purity(ctx, (lcc.determine_lc_class, lcc.determine_lc_class2, lcc.determine_lc_class3, lcc.determine_lc_class4, lcc.determine_lc_class5,
                        lcc.determine_lc_class6, lcc.count_identity_string, lcc.count_identity_structures, lcc.bits, lcc.index_of_first_set_bit, lcc.all_but),
                  "C06.frame.no_module_state")
    hist_jobs = []
    for n in range(2, 7):
        its = history.items_for(n, rnd)
        if n == 6 and ctx.quick:
            its = rnd.sample(its, 150)
        hist_jobs += [(n, ch, rnd.randrange(1 << 30), "classify") for ch in core.chunked(its, 8 if n < 6 else 32)]
    famh = ctx.family("C06.edited_object.class_id", BOUNDED, "native", "an object edited through its public attributes (single-qubit / CZ edits on every qubit) is classified like a fresh object with the same data")
    famh.exhaustive = False
    for res in core.pmap(history.edited_job, hist_jobs, chunks=1):
        for famname, ok, key, what, rp in res:
            ctx.record(famh, PROVED if ok else REFUTED, rp if famh.total < 2 else None)
            if not ok:
                ctx.violate(famh, key, what, rp)
    if not ctx.quick:
        orbs = list(range(760))
        gj += [(groups6_job, (ch, rnd.randrange(1 << 30))) for ch in core.chunked(orbs, 190)]
    counted6 = 0
    for (fnj, _), res in zip(gj, core.pmap(lambda j: j[0](j[1]), gj, chunks=1)):
        n, tot, bad = res[0], res[1], res[2]
        name = "C06.ground.all_graphs" if fnj is graphs_job else "C06.ground.all_groups"
        fam = ctx.family(name, GROUND, "native+oracle", "real classifier id == oracle orbit's id")
        fam.exhaustive = True
        if fnj is groups6_job:
            counted6 += tot
        ctx.record(fam, PROVED, {"n": n, "cases": tot} if fam.total < 3 else None, n=tot - len(bad))
        for b in bad[:20]:
            what = b[0] if not isinstance(b[0], list) else [P.to_label(n, g) for g in b[0]]
            ctx.record(fam, REFUTED, {"n": n, "input": what})
            ctx.violate(fam, f"classify:{n}:{what}", f"n={n}: {what} classified as {b[1]}, oracle orbit id {b[2]}", {"n": n, "paulis" if isinstance(what, list) else "graph_id": what})
    if not ctx.quick:
        okc = counted6 == G.EXPECTED_GROUPS[6]
        fam = ctx.family("C06.ground.six_qubit_group_count", GROUND, "oracle", "the enumerated 6-qubit groups number prod(2^k+1) = 4922775, so every group was classified")
        ctx.record(fam, PROVED if okc else REFUTED, {"counted": counted6})
        if not okc:
            raise core.CheckerError(f"6-qubit group enumeration incomplete: {counted6}")
    ctx.extra["ground_time_s"] = round(time.time() - t, 2)
    ctx.trust("oracle LC-orbit BFS, group enumeration (count-checked against prod(2^k+1)), group expansion",
              "M5 first half (every stabilizer state is local-Clifford equivalent to a graph state): used only for n=6 in the quick tier; replaced by enumeration in the thorough tier")
    ctx.assume("C15 (expand / is_qubit_entangled contracts) and C19.lc.same_class (each local complementation is a local Clifford) are separate checks",
               "n<=5: every group classified on one seeded generating set and sign vector; independence of generators and signs is the frame obligation")
    return core.finish(ctx, "proof", "representation-hiding frame run of the real classifier on (cnt, flags) of every orbit + counting lemma; exhaustive classification of all groups n<=5",
                       "Frame + round trip + orbit count give the bijection orbit <-> id; cross-checked by classifying every stabilizer group for n<=5 (6 thorough).",
                       "./check C06 --tier " + ctx.tier)


def replay(data):
    inp = data["input"]
    import htstabilizer.lc_classes as lcc
    if inp.get("paulis"):
        gens = [P.from_label(l) for l in inp["paulis"]]
        n = inp["n"]
        got = lcc.determine_lc_class(e2e.mk_stabilizer(n, gens)).id()
        want = e2e.cid_map(n)[G.classify(n, gens)]
        print("classified as", got, "oracle id", want)
        return 0 if got == want else 1
    if "id" in inp and "n" in inp:             # roundtrip
        from htstabilizer.stabilizer import Stabilizer
        LC = {2: lcc.LCClass2, 3: lcc.LCClass3, 4: lcc.LCClass4, 5: lcc.LCClass5, 6: lcc.LCClass6}[inp["n"]]
        got = lcc.determine_lc_class(Stabilizer(LC(inp["id"]).get_graph())).id()
        print(f"LCClass{inp['n']}({inp['id']}).get_graph() is classified as {got}")
        return 0 if got == inp["id"] else 1
    if "graph_id" in inp and isinstance(inp["graph_id"], int):
        from htstabilizer.stabilizer import Stabilizer
        from htstabilizer.graph import Graph
        n = inp["n"]
        got = lcc.determine_lc_class(Stabilizer(Graph.decompress(n, inp["graph_id"]))).id()
        want = e2e.cid_map(n).get(G.orbit_table(n)[0][inp["graph_id"]])
        print("graph", inp["graph_id"], "classified as", got, "oracle id", want)
        return 0 if got == want else 1
    print("no single failing input in this replay file:", inp)
    return 1
