"""C17 - every lookup-table entry is internally consistent.

Contracts (sidecar, checked on the complete finite domain D_tab = every non-empty line of every
data/stabilizer*.txt in the working tree):

  circuit_lookup.StabilizerCircuitInfo.__init__(n, line)
      post: graph_id, cost, depth, circuit_string are the four ':'-separated fields of `line`
  circuit_lookup.parse_circuit(n, s)
      pre : every token of s matches (h|s|sdg|cx|cz|swap)q(,q)? with q < n      [C17.vocab establishes it]
      post: the returned circuit's instruction list is exactly the token list, in order
  circuit_lookup.stabilizer_circuit_lookup(n, c, k)
      post: the info object of the k-th non-empty line of stabilizer<n>-<c>.txt
  table line k of (n, c):
      state : circuit|0> generates <X_v Z_N(v)> of the entry's graph, up to signs      (oracle tableau)
      class : the graph lies in the LC orbit of LCClass<n>(k).get_graph() (oracle BFS orbits) and the library's
              classifier files the graph state under k
      cost  : recorded cost  = number of two-qubit gates, SWAP = 3
      depth : recorded depth = ASAP two-qubit depth
"""
from __future__ import annotations
import time
from .. import core, adapt
from ..core import GROUND, PROVED, REFUTED
from ..oracle import pauli as P, graphs as G, docs


def check_file(args):
    n, conn, path = args
    import htstabilizer.circuit_lookup as cl
    import htstabilizer.lc_classes as lcc
    from htstabilizer.stabilizer import Stabilizer
    from htstabilizer.graph import Graph
    LC = {2: lcc.LCClass2, 3: lcc.LCClass3, 4: lcc.LCClass4, 5: lcc.LCClass5, 6: lcc.LCClass6}[n]
    orbit_of, reps = G.orbit_table(n)
    lines = [l for l in adapt.read_lines(path) if len(l) != 0]
    res = []      # (family, status, key, what, sample)
    fname = path.split("/")[-1]
    advertised = (n, conn) in docs.ADVERTISED

    def out(fam, ok, k, what, sample=None):
        res.append((fam, ok, f"{fname}:{k}:{fam}", what, sample))

    out("C17.lines", len(lines) == docs.CLASS_COUNT[n], -1,
        f"{fname} has {len(lines)} non-empty lines, expected {docs.CLASS_COUNT[n]}", {"file": fname, "lines": len(lines)})
    for k, line in enumerate(lines):
        parts = line.split(":")
        if len(parts) != 4 or not all(p.strip().isdigit() for p in parts[:3]):
            out("C17.format", False, k, f"{fname} line {k}: not graph:cost:depth:circuit: {line!r}")
            continue
        gid, cost, depth = int(parts[0]), int(parts[1]), int(parts[2])
        gates, bad = adapt.read_tokens(parts[3])
        bad_idx = [g for g in gates if any(q >= n for q in g[1])] + [g for g in gates if len(g[1]) == 2 and g[1][0] == g[1][1]]
        vocab_ok = not bad and not bad_idx
        out("C17.vocab", vocab_ok, k, f"{fname} line {k}: tokens outside the documented vocabulary / bad indices: {bad} {bad_idx}",
            {"file": fname, "line": k, "tokens": parts[3][:60]})
        if not vocab_ok:
            continue
        # contract of the real parser and of the info object on this line
        info = cl.StabilizerCircuitInfo(n, line)
        ok_info = (info.graph_id, info.cost, info.depth, info.num_qubits) == (gid, cost, depth, n) and adapt.same_text(info.circuit_string, parts[3])
        out("C17.info.post", ok_info, k, f"{fname} line {k}: StabilizerCircuitInfo fields differ from the line's fields")
        real = adapt.gates_of(info.parse_circuit())
        out("C17.parse.post", adapt.circuit_key(real) == adapt.circuit_key(gates), k,
            f"{fname} line {k}: parse_circuit gate list {real[:6]}.. != token list {gates[:6]}..",
            {"file": fname, "line": k, "gates": gates[:5]})
        if advertised:
            looked = cl.stabilizer_circuit_lookup(n, conn, k)
            ok_l = (looked.graph_id, looked.cost, looked.depth) == (gid, cost, depth) and adapt.same_text(looked.circuit_string, parts[3])
            out("C17.lookup.post", ok_l, k, f"lookup({n},{conn!r},{k}) does not return line {k} of {fname}")
        # state
        if gid >= 1 << (n * (n - 1) // 2):
            out("C17.state", False, k, f"{fname} line {k}: graph id {gid} out of range")
            continue
        adj = G.adj_from_id(n, gid)
        cg = P.canon_unsigned(n, P.state_generators(n, real))
        gg = P.canon_unsigned(n, G.graph_state_gens(n, adj))
        out("C17.state", cg == gg, k,
            f"{fname} line {k}: circuit does not prepare the graph state of graph id {gid} (mod signs)",
            {"file": fname, "line": k, "graph_id": gid})
        # class
        rep_graph = LC(k).get_graph() if k < docs.CLASS_COUNT[n] else None
        if rep_graph is None:
            out("C17.class", False, k, f"{fname} line {k}: no class with this id")
        else:
            rep_adj = tuple(sum((int(rep_graph.adjacency_matrix[i, j]) & 1) << j for j in range(n)) for i in range(n))
            same_orbit = orbit_of[gid] == orbit_of[G.id_from_adj(n, rep_adj)]
            lib_id = lcc.determine_lc_class(Stabilizer(Graph.decompress(n, gid))).id()
            out("C17.class", same_orbit and lib_id == k, k,
                f"{fname} line {k}: graph {gid} is in oracle orbit {orbit_of[gid]}, representative of id {k} in orbit "
                f"{orbit_of[G.id_from_adj(n, rep_adj)]}; library classifies the graph as {lib_id}",
                {"file": fname, "line": k, "orbit": orbit_of[gid]})
        c = P.two_qubit_cost(gates)
        d = P.two_qubit_depth(n, gates)
        out("C17.cost", c == cost, k, f"{fname} line {k}: recorded cost {cost}, actual two-qubit count {c}",
            {"file": fname, "line": k, "cost": cost})
        out("C17.depth", d == depth, k, f"{fname} line {k}: recorded depth {depth}, actual two-qubit depth {d}",
            {"file": fname, "line": k, "depth": depth})
    return res


def cross_job(n):
    """the same class id looked up and parsed on every connectivity in turn (and in reverse), in one process: each result must still be its own line's circuit"""
    import htstabilizer.circuit_lookup as cl
    conns = [c for m, c in docs.ADVERTISED if m == n]
    texts = {}
    for n2, c, p in adapt.data_files("stabilizer"):
        if n2 == n and c in conns:
            texts[c] = [l for l in adapt.read_lines(p) if l]
    out = []
    for k in range(docs.CLASS_COUNT[n]):
        for order in (conns, list(reversed(conns))):
            for c in order:
                info = cl.stabilizer_circuit_lookup(n, c, k)
                got = adapt.gates_of(info.parse_circuit())
                want, _ = adapt.read_tokens(texts[c][k].split(":")[3])
                if adapt.circuit_key(got) != adapt.circuit_key(want) or (info.cost, info.depth) != (int(texts[c][k].split(":")[1]), int(texts[c][k].split(":")[2])):
                    out.append((n, c, k))
    return n, docs.CLASS_COUNT[n] * len(conns) * 2, out


def cross_table_order(ctx):
    fam = ctx.family("C17.lookup.order_independent", GROUND, "native", "looking the same class up on every connectivity in turn yields each table's own entry")
    fam.exhaustive = True
    fam.domain = "every class id x every connectivity of its qubit count, both orders, one process per qubit count"
    for n, tot, bad in core.pmap(cross_job, [2, 3, 4, 5, 6], chunks=1):
        ctx.record(fam, PROVED, {"n": n, "lookups": tot}, n=tot - len(bad))
        for (n_, c, k) in bad[:20]:
            ctx.record(fam, REFUTED, {"n": n_, "connectivity": c, "class_id": k})
            ctx.violate(fam, f"cross:{n_}:{c}:{k}", f"stabilizer_circuit_lookup({n_},{c!r},{k}).parse_circuit() after looking the class up on another connectivity is not line {k} of stabilizer{n_}-{c}.txt",
                        {"file": f"stabilizer{n_}-{c}.txt", "line": k, "n": n_, "connectivity": c})


DESC = {
    "C17.lines": "exactly K_n non-empty lines per table (K = 2,5,18,93,760)",
    "C17.format": "line has four ':' fields, first three integers",
    "C17.vocab": "tokens match (h|s|sdg|cx|cz|swap)q(,q)? with distinct indices < n",
    "C17.info.post": "StabilizerCircuitInfo.__init__ post: fields = line fields",
    "C17.parse.post": "parse_circuit post: instruction list = token list in order",
    "C17.lookup.post": "stabilizer_circuit_lookup post: info of the k-th non-empty line",
    "C17.state": "circuit|0> = graph state of the entry's graph mod signs (oracle tableau)",
    "C17.class": "entry graph in the LC orbit of the id's representative graph; classifier agrees",
    "C17.cost": "cost field = two-qubit count (swap=3)",
    "C17.depth": "depth field = ASAP two-qubit depth",
}


def run(ctx: core.Ctx):
    import htstabilizer.circuit_lookup as cl
    import htstabilizer.lc_classes as lcc
    from htstabilizer.graph import Graph
    for f in (cl.StabilizerCircuitInfo, cl.parse_circuit, cl.stabilizer_circuit_lookup, Graph.decompress):
        ctx.under_contract(f)
    ctx.selfcheck["oracle_gate_rules_checked_densely"] = P.selftest()
    ctx.selfcheck["oracle_graph_selftest"] = G.selftest()
    files = adapt.data_files("stabilizer")
    missing = [c for c in docs.ADVERTISED if c not in {(n, k) for n, k, _ in files}]
    fam = ctx.family("C17.files", GROUND, "native", "a table file exists for each of the 20 advertised configurations")
    fam.exhaustive = True
    for c in docs.ADVERTISED:
        ok = c not in missing
        ctx.record(fam, PROVED if ok else REFUTED, {"config": list(c)})
        if not ok:
            ctx.violate(fam, f"missing-table:{c}", f"no table file for advertised configuration {c}", {"config": list(c)})
    from .. import symrun
    symrun.purity(ctx, (cl.StabilizerCircuitInfo.__init__, cl.StabilizerCircuitInfo.parse_circuit, cl.parse_circuit, cl.stabilizer_circuit_lookup, cl.mub_circuit_lookup,
                        cl.MUBInfo.__init__, cl.MUBInfo.copy), "C17.frame.no_module_state", allow=("stabilizer_file_cache", "mub_file_cache"))
    cross_table_order(ctx)
    t = time.time()
    results = core.pmap(check_file, files, chunks=1)
    dt = time.time() - t
    stray = [f"{p.split('/')[-1]}" for n, c, p in files if (n, c) not in docs.ADVERTISED]
    total_lines = 0
    for (n, c, p), res in zip(files, results):
        for famname, ok, key, what, sample in res:
            fam = ctx.family(famname, GROUND, "native+oracle", DESC.get(famname, ""))
            fam.exhaustive = True
            ctx.record(fam, PROVED if ok else REFUTED, sample)
            if famname == "C17.cost":
                total_lines += 1
            if not ok:
                fname, k, _ = key.split(":")
                ctx.violate(fam, key, what, {"file": fname, "line": int(k), "obligation": famname,
                                             "python": f"open('/repo/src/htstabilizer/data/{fname}').read().split('\\n')  # non-empty line {k}"})
    for fam in ctx.families.values():
        fam.domain = f"every non-empty line of {len(files)} table files ({total_lines} well-formed lines)"
    ctx.families["C17.files"].domain = "20 advertised configurations"
    ctx.extra["table_files"] = len(files)
    ctx.extra["stray_files_checked_with_same_rules"] = stray
    ctx.extra["ground_time_s"] = round(dt, 2)
    ctx.trust("oracle tableau simulator (hv/oracle/pauli.py; gate rules cross-checked against dense matrices n<=3 every run)",
              "oracle LC-orbit BFS (hv/oracle/graphs.py; orbit counts 2,5,18,93,760 checked)",
              "CPython, numpy; qiskit QuantumCircuit.h/s/sdg/cx/cz/swap append exactly that gate (Q3, observed via instruction list)")
    ctx.assume("Q3: qiskit QuantumCircuit gate methods append exactly the named gate on the given qubits (the instruction "
               "list read back from the circuit is what is compared)",
               "class id k denotes the LC orbit of LCClass<n>(k).get_graph() (that this graph is in its class is C06)")
    return core.finish(ctx, "proof", "contract obligations discharged by complete enumeration of the finite table domain",
                       "Every contract clause is evaluated on every line of every table file (domain enumerated completely, "
                       "sizes measured), against an independent tableau simulator and LC-orbit oracle.",
                       "./check C17 --tier " + ctx.tier)


def replay(data):
    ctx = core.Ctx("C17", "quick", 0)
    inp = data["input"]
    files = [f for f in adapt.data_files("stabilizer") if f[2].endswith("/" + inp.get("file", ""))]
    hit = False
    for f in files:
        for famname, ok, key, what, _ in check_file(f):
            if key == data["key"] and not ok:
                print("REPRODUCED:", what)
                hit = True
    if not hit:
        print("not reproduced on the current tree")
    return 1 if hit else 0
