"""C01 - the preparation circuit prepares exactly the requested (signed) stabilizer state.

Top-level contract of stabilizer_circuits.get_preparation_circuit (transcribed from the property):
    pre : valid stabilizer on n = 2..6 qubits, (n, connectivity) advertised
    post: C|0..0> is the +1 eigenstate of every given signed Pauli   <=>  each given Pauli lies, with sign +, in the
          signed group <C Z_i C^dagger> (independent tableau oracle); never raises; argument unmodified
Sign step for ALL sign vectors: hv/contracts/signstep.py interprets rotate_stabilizer_into_state / synth_circuit_from_stabilizers with symbolic sign bits against
contract stubs of the qiskit names they use (Q1-Q3 through the oracle); the postcondition is an XOR-affine identity in the sign bits.  One run per (configuration,
generator list): all groups for n<=4, every class with seeded members for n=5,6.  The stubs are validated on every case against the real qiskit run at two sign vectors.
Decomposition (DESIGN 5): the sign-free pipeline is covered for ALL valid inputs by C06 (class id), C17 (table entry),
C16 (layer search sound+complete, gate word), lemma K4; the sign step (rotate_stabilizer_into_state /
synth_circuit_from_stabilizers - qiskit object manipulation, no contract within reach gives those objects semantics) is decided
by evaluating the top-level contract on complete domains for n <= 4 and on seeded domains for n = 5, 6 (BOUNDED).
"""
from __future__ import annotations
import time, random
from .. import core, e2e, adapt
from ..core import GROUND, BOUNDED, PROVED, REFUTED
from ..oracle import pauli as P, graphs as G, docs


def route_of(ctx):
    def f(fam, n):
        if n <= 3:
            return GROUND
        if n == 4:
            return GROUND if not ctx.quick else BOUNDED
        return BOUNDED
    return f


def sign_step(ctx):
    """rotate_stabilizer_into_state + synth_circuit_from_stabilizers interpreted with symbolic sign bits against contract stubs of qiskit (Q1-Q3):
    one run per (configuration, generator list) covers ALL 2^n sign vectors"""
    import random
    from ..contracts import signstep
    from ..core import SYM, PROVED, REFUTED, UNKNOWN
    import htstabilizer.rotate_stabilizer_into_state as rot
    for f in (rot.rotate_stabilizer_into_state, rot._rotate_stabilizer_into_state_circuit, rot.synth_circuit_from_stabilizers):
        ctx.under_contract(f)
    rnd = random.Random(ctx.seed + 101)
    jobs, tags = [], []
    from ..oracle import docs
    for n, conn in docs.ADVERTISED:
        if n <= 4:
            for key in G.all_groups(n):
                rows = G.rows_from_key(n, key)
                if rnd.random() < 0.5:
                    rows = e2e.generator_changes(n, rows, rnd, 1)[0]
                jobs.append((n, conn, rows, "all-groups"))
                tags.append(("all_groups_n_le_4", True))
        else:
            members = (3 if n == 5 else 2) if ctx.quick else (30 if n == 5 else 10)
            orbit_of, reps = G.orbit_table(n)
            for gid in reps:
                rows0 = [(x, z) for x, z, _ in G.graph_state_gens(n, G.adj_from_id(n, gid))]
                for mem in range(members):
                    rows = rows0 if mem == 0 else e2e.generator_changes(n, G.apply_layer_unsigned(n, rows0, [rnd.randrange(6) for _ in range(n)]), rnd, 1)[0]
                    jobs.append((n, conn, rows, "members"))
                    tags.append((f"class_members_n{n}", False))
    chunks = core.chunked(list(range(len(jobs))), 256)
    res = core.pmap(lambda idxs: [signstep.sign_step_job(jobs[i]) for i in idxs], chunks, chunks=1)
    flat = [r for ch in res for r in ch]
    for (tag, exh), recs in zip(tags, flat):
        for famname, ok, key, what, rp in recs:
            fam = ctx.family(f"{famname}.{tag}", SYM, "pyvc+contract-stubs+normal-form",
                             "for ALL 2^n sign vectors of the generator list: every requested signed Pauli lies in the signed stabilizer group of the returned circuit; no exception")
            fam.exhaustive = True
            fam.domain = ("every stabilizer group for n<=4 on every configuration (one generating set each)" if exh else
                          "every class of every 5/6-qubit configuration, seeded members and generating sets") + " x ALL sign vectors (symbolic)"
            if ok is None:
                ctx.record(fam, UNKNOWN, rp if fam.total < 2 else None)
                ctx.undecide(fam, what)
            else:
                ctx.record(fam, PROVED if ok else REFUTED, rp if fam.total < 2 else None)
                if not ok:
                    ctx.violate(fam, key, what, rp)
    ctx.extra["sign_step_cases"] = len(jobs)


def own_generator_jobs(ctx):
    import random
    import htstabilizer.stabilizer_circuits as sc
    from htstabilizer.stabilizer import Stabilizer
    rnd = random.Random(ctx.seed + 101)
    jobs = []
    for n, conn in docs.ADVERTISED:
        if n < 4:
            continue
        reps = G.orbit_table(n)[1]
        orbs = list(range(len(reps)))
        rnd.shuffle(orbs)
        orbs = orbs[:(12 if n < 6 else 3) if ctx.quick else (40 if n < 6 else 25)]
        for o in orbs:
            rows = G.apply_layer_unsigned(n, [(x, z) for x, z, _ in G.graph_state_gens(n, G.adj_from_id(n, reps[o]))], [rnd.randrange(6) for _ in range(n)])
            R, Sm, _ = adapt.matrices_from_gens(n, [(x, z, 0) for x, z in rows])
            try:
                base = adapt.gates_of(sc._get_preparation_circuit_modulo_phase(Stabilizer((R, Sm)), conn))
            except Exception:
                continue                                     # reported by the other families
            own = [(x, z) for x, z, _ in P.state_generators(n, base)]
            els = [(x, z) for x, z, _ in P.group_elements(n, [(x, z, 0) for x, z in own])][1:]
            jobs.append((n, conn, [(x, z, 0) for x, z in own], "matrix", None))
            jobs.append((n, conn, [(x, z, rnd.randrange(2)) for x, z in own], "strings", None))
            picks = [(i, h) for i in range(n) for h in els]          # EVERY (position, group element) replacement for the chosen members
            for i, h in picks:
                lst = list(own)
                lst[i] = h
                if G.canon_keys(n, lst) is None:
                    continue                                 # no longer independent
                for sv in ([0] * n, [rnd.randrange(2) for _ in range(n)]):
                    jobs.append((n, conn, [(x, z, b) for (x, z), b in zip(lst, sv)], ("matrix", "strings")[len(jobs) % 2], None))
    return jobs


def run(ctx: core.Ctx):
    import htstabilizer.stabilizer_circuits as sc
    import htstabilizer.rotate_stabilizer_into_state as rot
    for f in (sc.get_preparation_circuit, sc._get_preparation_circuit_modulo_phase, rot.rotate_stabilizer_into_state,
              rot._rotate_stabilizer_into_state_circuit, rot.synth_circuit_from_stabilizers):
        ctx.under_contract(f)
    ctx.selfcheck["oracle_gate_rules_checked_densely"] = P.selftest()
    from .. import prereq, symrun
    prereq.pipeline_contracts(ctx)       # glue code (all n), layer-search segment contracts (all inputs), purity of the pipeline functions
    sign_step(ctx)
    jobs, desc = e2e.build_jobs(ctx, parts=("prep",))
    t = time.time()
    results = core.pmap(e2e.eval_state, jobs)
    e2e.book(ctx, results, ("C01.",), route_of(ctx))
    # generating sets CLOSE TO THE LIBRARY'S OWN: the generators C Z_i C^dagger of the circuit it delivers for a class member, with one of them replaced by another
    # element of the group (every position x every group element, for seeded members of seeded classes) - the inputs on which "the request already matches what I produce" shortcuts live
    nj = own_generator_jobs(ctx)
    res2 = core.pmap(e2e.eval_state, nj)
    for r in res2:
        for fam_name, ok, key, what, rp in r:
            if not fam_name.startswith("C01."):
                continue
            fam = ctx.family(fam_name + ".near_own_generators", core.BOUNDED, "native+oracle", "requested generators = the delivered circuit's own generators with one replaced by another group element")
            fam.exhaustive = False
            ctx.record(fam, PROVED if ok else REFUTED, {"n": rp["n"], "connectivity": rp["connectivity"], "paulis": rp["paulis"]} if fam.total < 2 else None)
            if not ok:
                ctx.violate(fam, key, what, rp)
    # the table's OWN graph of every entry, requested in graph form (generators K_v = X_v Z_N(v) in vertex order): the input for which the layer search returns the
    # identity and the delivered circuit is the table circuit itself, whose generators may carry native minus signs.  Every entry x every single-minus sign vector, all-minus
    # (thorough: all 2^n sign vectors for n<=5, 16 seeded more for n=6)
    import htstabilizer.circuit_lookup as cl
    tj = []
    rnd = random.Random(ctx.seed + 101)
    for n, conn in docs.ADVERTISED:
        for k in range(docs.CLASS_COUNT[n]):
            gid = cl.stabilizer_circuit_lookup(n, conn, k).graph_id
            rows = [(x, z) for x, z, _ in G.graph_state_gens(n, G.adj_from_id(n, gid))]
            svs = [tuple(int(i == j) for i in range(n)) for j in range(n)] + [(1,) * n]
            if not ctx.quick:
                svs = e2e.sign_vectors(n) if n <= 5 else svs + [tuple(rnd.randrange(2) for _ in range(n)) for _ in range(16)]
            elif n <= 4:
                svs = e2e.sign_vectors(n)
            for sv in svs:
                tj.append((n, conn, e2e.with_signs(rows, sv), ("matrix", "strings")[len(tj) % 2], None, ("prep",)))
    famt = None
    for r in core.pmap(e2e.eval_state, tj):
        for fam_name, ok, key, what, rp in r:
            if not fam_name.startswith("C01."):
                continue
            famt = ctx.family(fam_name + ".table_graph_in_graph_form", core.GROUND, "native+oracle", "the representative graph of every table entry requested in graph form (identity layer)")
            famt.exhaustive = True
            famt.domain = "all 7326 (n, connectivity, class id) x every single-minus sign vector and all-minus (all sign vectors for n<=4; thorough: all for n<=5, +16 seeded for n=6)"
            ctx.record(famt, PROVED if ok else REFUTED, {"n": rp["n"], "connectivity": rp["connectivity"], "paulis": rp["paulis"]} if famt.total < 2 else None)
            if not ok:
                ctx.violate(famt, key, what, rp)
    ctx.extra["domains"] = desc
    ctx.extra["ground_time_s"] = round(time.time() - t, 2)
    ctx.extra["cases"] = len(jobs) + len(nj) + len(tj)
    ctx.trust("oracle signed tableau simulator (hv/oracle/pauli.py), group enumeration count-checked against prod(2^k+1)",
              "Q3: qiskit QuantumCircuit gate methods / compose / inverse keep the instruction semantics read back through the instruction list")
    ctx.assume("n<=3 (and n=4 in the thorough tier): exhaustive over all stabilizer groups and all sign vectors; generating sets exhaustive only for n=2",
               "n=5,6 (and n=4 quick): seeded members, signs and generating sets - BOUNDED, not counted as proved",
               "sign-free pipeline for all inputs rests on C06, C16, C17 (separate checks) and lemma K4 (M2)")
    return core.finish(ctx, "proof", "top-level contract evaluated by an independent tableau oracle on completely enumerated domains (n<=4); bounded beyond",
                       "Exact-sign preparation contract on all stabilizer groups x all sign vectors for n<=3 (n<=4 thorough); the n=5,6 sign step is a "
                       "bounded stand-in listed apart.", "./check C01 --tier " + ctx.tier)


def replay(data):
    inp = data["input"]
    gens = [P.from_label(l) for l in inp["paulis"]]
    res = e2e.eval_state((inp["n"], inp["connectivity"], gens, inp.get("format", "matrix"), None))
    bad = [r for r in res if not r[1]]
    for r in bad:
        print("REPRODUCED:", r[0], r[3])
    return 1 if bad else 0
