"""C01 - the preparation circuit prepares exactly the requested (signed) stabilizer state.

Top-level contract of stabilizer_circuits.get_preparation_circuit (transcribed from the property):
    pre : valid stabilizer on n = 2..6 qubits, (n, connectivity) advertised
    post: C|0..0> is the +1 eigenstate of every given signed Pauli   <=>  each given Pauli lies, with sign +, in the
          signed group <C Z_i C^dagger> (independent tableau oracle); never raises; argument unmodified
Decomposition (DESIGN 5): the sign-free pipeline is covered for ALL valid inputs by C06 (class id), C17 (table entry),
C16 (layer search sound+complete, gate word), lemma K4; the sign step (rotate_stabilizer_into_state /
synth_circuit_from_stabilizers - qiskit object manipulation, no contract within reach gives those objects semantics) is decided
by evaluating the top-level contract on complete domains for n <= 4 and on seeded domains for n = 5, 6 (BOUNDED).
"""
from __future__ import annotations
import time
from .. import core, e2e
from ..core import GROUND, BOUNDED
from ..oracle import pauli as P, graphs as G


def route_of(ctx):
    def f(fam, n):
        if n <= 3:
            return GROUND
        if n == 4:
            return GROUND if not ctx.quick else BOUNDED
        return BOUNDED
    return f


def run(ctx: core.Ctx):
    import htstabilizer.stabilizer_circuits as sc
    import htstabilizer.rotate_stabilizer_into_state as rot
    for f in (sc.get_preparation_circuit, sc._get_preparation_circuit_modulo_phase, rot.rotate_stabilizer_into_state,
              rot._rotate_stabilizer_into_state_circuit, rot.synth_circuit_from_stabilizers):
        ctx.under_contract(f)
    ctx.selfcheck["oracle_gate_rules_checked_densely"] = P.selftest()
    from .. import prereq, symrun
    prereq.pipeline_contracts(ctx)       # glue code (all n), layer-search segment contracts (all inputs), purity of the pipeline functions
    jobs, desc = e2e.build_jobs(ctx, parts=("prep",))
    t = time.time()
    results = core.pmap(e2e.eval_state, jobs)
    e2e.book(ctx, results, ("C01.",), route_of(ctx))
    ctx.extra["domains"] = desc
    ctx.extra["ground_time_s"] = round(time.time() - t, 2)
    ctx.extra["cases"] = len(jobs)
    ctx.trust("oracle signed tableau simulator (hv/oracle/pauli.py), group enumeration count-checked against prod(2^k+1)",
              "Q3: qiskit QuantumCircuit gate methods / compose / inverse keep the instruction semantics read back through the instruction list")
    ctx.assume("n<=3 (and n=4 in the thorough tier): exhaustive over all stabilizer groups and all sign vectors; generating sets exhaustive only for n=2",
               "n=5,6 (and n=4 quick): seeded members, signs and generating sets - BOUNDED, not counted as proved",
               "sign-free pipeline for all inputs rests on C06, C16, C17 (separate checks) and lemma K4 (M2)")
    return core.finish(ctx, "proof", "top-level contract evaluated by an independent tableau oracle on completely enumerated domains (n<=4); bounded beyond",
                       "Exact-sign preparation contract on all stabilizer groups x all sign vectors for n<=3 (n<=4 thorough); the n=5,6 sign step is a "
                       "bounded stand-in listed apart.", "./check C01 --tier " + ctx.tier)


def replay(data):
    inp = data["input"]
    gens = [P.from_label(l) for l in inp["paulis"]]
    res = e2e.eval_state((inp["n"], inp["connectivity"], gens, inp.get("format", "matrix"), None))
    bad = [r for r in res if not r[1]]
    for r in bad:
        print("REPRODUCED:", r[0], r[3])
    return 1 if bad else 0
