"""C16 - the local-Clifford layer search is sound and complete.     (contracts and lemma: hv/contracts/layer.py)

SYM obligations over ALL inputs of each shape (pyvc, ANF/z3): segA.linearity[n,m] for all 1<=m<=n<=6 (7 thorough), basis.bijection, segC.span,
segD.* for n<=6 (7), to_circuit.* for n<=6, check_LC.post, generate_*; null_space's contract on the (n*m) x 4n shapes is C18.
GROUND cross-check of the top-level contract against brute force over all 6^n layers:
   find_local_clifford_layer(R, S, graph) returns None <=> no layer of invertible 2x2 blocks maps every given operator into the graph state's group;
   a returned layer is diagonal with invertible blocks, maps every operator into the group (oracle), and local_clifford_layer_to_circuit's gate word
   conjugates X_q, Z_q as the block says; arguments unmodified.
   Domain: ALL (group, graph) pairs for n<=3 and ALL partial sets obtained by dropping generators; (one member per class) x ALL 64 graphs for n=4; seeded n=5,6.
"""
from __future__ import annotations
import itertools, random, time
import numpy as np
from .. import core, symrun, adapt, e2e
from ..core import SYM, GROUND, BOUNDED, PROVED, REFUTED
from ..contracts import layer as C
from ..oracle import pauli as P, graphs as G, docs


def in_graph_group(n, adj, x, z):
    """(x,z) is (mod sign) in <X_v Z_N(v)>  <=>  z = Gamma x (with diagonal terms: element = prod_{v in x} g_v)"""
    zz = 0
    for v in range(n):
        if (x >> v) & 1:
            zz ^= adj[v]
    return zz == z


def layer_exists(n, rows, adj):
    for layer in itertools.product(range(6), repeat=n):
        img = G.apply_layer_unsigned(n, rows, layer)
        if all(in_graph_group(n, adj, x, z) for x, z in img):
            return True
    return False


def eval_pair(n, rows, gid, exists=None):
    """rows: list of m (x,z) operators; gid graph id"""
    from htstabilizer.find_local_clifford_layer import find_local_clifford_layer, local_clifford_layer_to_circuit
    from htstabilizer.graph import Graph
    m = len(rows)
    adj = G.adj_from_id(n, gid)
    R = np.zeros((n, m), dtype=np.int8)
    Sm = np.zeros((n, m), dtype=np.int8)
    for j, (x, z) in enumerate(rows):
        for q in range(n):
            R[q, j] = (x >> q) & 1
            Sm[q, j] = (z >> q) & 1
    g = Graph.decompress(n, gid)
    Rb, Sb, gb = R.copy(), Sm.copy(), g.adjacency_matrix.copy()
    labels = [P.to_label(n, (x, z, 0), False) for x, z in rows]
    rp = {"n": n, "operators": labels, "graph_id": gid,
          "python": f"find_local_clifford_layer(R, S, Graph.decompress({n},{gid}))  # columns of R/S = {labels}"}
    key = f"{n}:{labels}:{gid}"
    out = []
    try:
        As = find_local_clifford_layer(R, Sm, g)
    except Exception as e:
        out.append(("C16.ground.noraise", False, f"raise:{key}", f"find_local_clifford_layer raised {type(e).__name__}: {e} for {labels} vs graph {gid}", rp))
        return out
    out.append(("C16.ground.noraise", True, f"raise:{key}", "", rp))
    out.append(("C16.ground.args_unmodified", np.array_equal(R, Rb) and np.array_equal(Sm, Sb) and np.array_equal(g.adjacency_matrix, gb), f"args:{key}",
                f"find_local_clifford_layer modified its arguments ({labels}, graph {gid})", rp))
    if exists is None:
        exists = layer_exists(n, rows, adj)
    if exists != "skip":          # "skip": existence not known for this pair (no brute force); only the soundness clauses are evaluated
        out.append(("C16.ground.none_iff_no_layer", (As is None) == (not exists), f"exist:{key}",
                    f"{labels} vs graph {gid}: search returned {'None' if As is None else 'a layer'}, brute force over 6^{n} layers says a layer {'exists' if exists else 'does not exist'}", rp))
    if As is not None:
        ok = len(As) == 4 and all(a.shape == (n, n) for a in As)
        blocks = []
        if ok:
            for q in range(n):
                b = tuple(int(As[e][q, q]) & 1 for e in range(4))
                blocks.append(b)
                ok = ok and b in G.SIX
            ok = ok and all(int(As[e][i, j]) == 0 for e in range(4) for i in range(n) for j in range(n) if i != j)
        out.append(("C16.ground.layer_is_local_clifford", ok, f"cliff:{key}", f"{labels} vs graph {gid}: returned layer is not diagonal with invertible blocks: {[a.tolist() for a in As]}", rp))
        if ok:
            layer = [G.SIX.index(b) for b in blocks]
            img = G.apply_layer_unsigned(n, rows, layer)
            out.append(("C16.ground.layer_has_effect", all(in_graph_group(n, adj, x, z) for x, z in img), f"effect:{key}",
                        f"{labels} vs graph {gid}: returned layer {blocks} does not map all operators into the graph state's group", rp))
            gates = adapt.gates_of(local_clifford_layer_to_circuit(As))
            okc = all(len(q) == 1 for _, q in gates)
            for q in range(n):
                for (x, z) in ((1, 0), (0, 1)):
                    px, pz, _ = P.conj_circuit((x << q, z << q, 0), gates)
                    a, b, c, d = blocks[q]
                    okc = okc and px == (((a & x) ^ (b & z)) << q) and pz == (((c & x) ^ (d & z)) << q)
            out.append(("C16.ground.circuit_implements_layer", okc, f"circ:{key}", f"gate word {gates} does not implement the layer {blocks}", rp))
    return out


def pairs_job(args):
    n, cases = args
    out = []
    for rows, gid, exists in cases:
        out += eval_pair(n, rows, gid, exists)
    return out


def self_solution_count(n, adj):
    rows0 = [(x, z) for x, z, _ in G.graph_state_gens(n, adj)]
    cnt = 0
    for layer in itertools.product(range(6), repeat=n):
        if all(in_graph_group(n, adj, x, z) for x, z in G.apply_layer_unsigned(n, rows0, layer)):
            cnt += 1
            if cnt > 1:
                break
    return cnt


def target_graph_job(args):
    n, lo, hi, seed = args
    rnd = random.Random(seed * 1000003 + n * 7919 + lo)
    out = []
    keep = ("C16.ground.none_iff_no_layer", "C16.ground.noraise", "C16.ground.layer_has_effect", "C16.ground.layer_is_local_clifford", "C16.ground.args_unmodified")
    for gid in range(lo, hi):
        adj = G.adj_from_id(n, gid)
        rows0 = [(x, z) for x, z, _ in G.graph_state_gens(n, adj)]
        rows = G.apply_layer_unsigned(n, rows0, [rnd.randrange(6) for _ in range(n)])
        res = [r for r in eval_pair(n, rows, gid, True) if r[0] in keep]
        edges = [(i, j) for i in range(n) for j in range(i + 1, n) if (adj[i] >> j) & 1]
        if edges:
            i, j = rnd.choice(edges)
            adj2 = list(adj)
            adj2[i] ^= 1 << j
            adj2[j] ^= 1 << i
            rows2 = [(x, z) for x, z, _ in G.graph_state_gens(n, tuple(adj2))]
            res += [r for r in eval_pair(n, rows2, gid, "skip" if n >= 5 else None) if r[0] in keep]
        out += [(f.replace("C16.ground.", "C16.ground.every_target_graph."), ok, key, what, rp) for f, ok, key, what, rp in res]
    return out


def rigid_graphs(n):
    """orbit representatives whose graph state has no non-trivial local-Clifford symmetry: every member of the class has exactly ONE layer onto the graph,
    so completeness has to find each of the 6^n layers individually"""
    import os, pickle
    path = os.path.join(core.ROOT, ".cache", f"rigid{n}.pkl")
    if os.path.exists(path):
        try:
            with open(path, "rb") as f:
                return pickle.load(f)
        except Exception:
            pass                                    # unreadable cache: recompute
    reps = G.orbit_table(n)[1]
    out = [g for g in reps if self_solution_count(n, G.adj_from_id(n, g)) == 1]
    os.makedirs(os.path.dirname(path), exist_ok=True)
    tmp = path + f".{os.getpid()}.tmp"
    with open(tmp, "wb") as f:
        pickle.dump(out, f)
    os.replace(tmp, path)                           # atomic: concurrent checks never see a partial file
    return out


def rigid_job(args):
    n, gid, layers = args
    adj = G.adj_from_id(n, gid)
    rows0 = [(x, z) for x, z, _ in G.graph_state_gens(n, adj)]
    out = []
    for layer in layers:
        inv = [G.SIX.index((G.SIX[l][3], G.SIX[l][1], G.SIX[l][2], G.SIX[l][0])) for l in layer]
        rows = G.apply_layer_unsigned(n, rows0, inv)          # the unique layer onto the graph is `layer`
        out += [r for r in eval_pair(n, rows, gid, True) if r[0] in ("C16.ground.none_iff_no_layer", "C16.ground.noraise", "C16.ground.layer_has_effect")]
    return [(f.replace("C16.ground.", "C16.ground.rigid_class."), ok, key, what, rp) for f, ok, key, what, rp in out]


def build_ground(ctx):
    rnd = random.Random(ctx.seed + 16)
    exhaustive, bounded = [], []
    for n in (2, 3):
        ngraphs = 1 << (n * (n - 1) // 2)
        for key in G.all_groups(n):
            rows = G.rows_from_key(n, key)
            subsets = [rows] + [list(c) for m in range(1, n) for c in itertools.combinations(rows, m)]
            for sub in subsets:
                for gid in range(ngraphs):
                    exhaustive.append((n, (sub, gid, None)))
    # operator LISTS with dependent members ("any set of Pauli operators"): an element of the span of the first p operators (the identity, a repetition, a product)
    # is inserted at position p, in FRONT of further independent operators - all spans, all positions, all graphs for n<=3
    def with_dependent(rows, p, mask):
        x = z = 0
        for i in range(p):
            if (mask >> i) & 1:
                x ^= rows[i][0]
                z ^= rows[i][1]
        return rows[:p] + [(x, z)] + rows[p:]
    for n in (2, 3):
        ngraphs = 1 << (n * (n - 1) // 2)
        for key in G.all_groups(n):
            rows = G.rows_from_key(n, key)
            for p in range(1, n):
                for mask in range(1 << p):
                    for gid in range(ngraphs):
                        exhaustive.append((n, (with_dependent(rows, p, mask), gid, None)))
    groups4 = G.all_groups(4)
    seen = {}
    for key, orb in groups4.items():
        seen.setdefault(orb, []).append(key)
    for orb, keys in seen.items():
        for key in ([keys[0], keys[len(keys) // 2]] if not ctx.quick else [keys[len(keys) // 3]]):
            rows = G.rows_from_key(4, key)
            for gid in range(64):
                exhaustive.append((4, (rows, gid, None)))
            for gid in rnd.sample(range(64), 6):
                sub = rnd.sample(rows, rnd.randrange(1, 4))
                exhaustive.append((4, (sub, gid, None)))
            for gid in rnd.sample(range(64), 6):
                p = rnd.randrange(1, 4)
                exhaustive.append((4, (with_dependent(rows, p, rnd.randrange(1 << p)), gid, None)))
            members4 = [g for g in range(64) if G.orbit_table(4)[0][g] == orb]
            if members4:
                for p in (1, 2, 3):
                    exhaustive.append((4, (with_dependent(rows, p, rnd.randrange(1 << p)), rnd.choice(members4), None)))
    for n in (5, 6):
        orbit_of, reps = G.orbit_table(n)
        cnt = (40 if n == 5 else 16) if ctx.quick else (300 if n == 5 else 100)
        for _ in range(cnt):
            o = rnd.randrange(len(reps))
            rows0 = [(x, z) for x, z, _ in G.graph_state_gens(n, G.adj_from_id(n, reps[o]))]
            rows = G.apply_layer_unsigned(n, rows0, [rnd.randrange(6) for _ in range(n)])
            rows = e2e.generator_changes(n, rows, rnd, 1)[0]
            same = rnd.random() < 0.5
            if same:
                members = [g for g in range(len(orbit_of)) if orbit_of[g] == o]
                gid = rnd.choice(members)
            else:
                gid = rnd.randrange(len(orbit_of))
            if rnd.random() < 0.3:
                rows = rnd.sample(rows, rnd.randrange(1, n))
            bounded.append((n, (rows, gid, None)))
            if same and len(rows) == n:
                p = rnd.randrange(1, n - 1)
                bounded.append((n, (with_dependent(rows, p, rnd.randrange(1 << p)), gid, None)))
    return exhaustive, bounded


def run(ctx: core.Ctx):
    import htstabilizer.find_local_clifford_layer as fl
    for f in (fl.find_local_clifford_layer, fl.local_clifford_layer_to_circuit, fl.check_LC, fl.generate_local_clifford_symplectic,
              fl.generate_single_qubit_symplectic, fl.generate_local_clifford_symplectic_from_id):
        ctx.under_contract(f)
    nmax = 6 if ctx.quick else 7
    tasks = [C.task_basis()]
    tasks += [C.task_segA(n, m) for n in range(1, nmax + 1) for m in range(1, n + 1)]
    tasks += [C.task_segC(r, 8) for r in range(0, 5)] + [C.task_segC(1, 24), C.task_segC(3, 12)]
    tasks += [C.task_segD(n, m) for n in range(1, nmax + 1) for m in range(1, n + 1)]
    tasks += [C.task_to_circuit(n) for n in range(1, 7)]
    tasks += [C.case_check_LC(n, m) for n, m in [(1, 1), (2, 1), (2, 2), (3, 2)]]
    tasks += [C.task_check_LC(n, m) for n in range(1, 7) for m in sorted({1, n})]
    tasks += [C.case_generate(n) for n in range(1, 7)]
    symrun.run(ctx, tasks, label="sym")
    t = time.time()
    ex, bd = build_ground(ctx)
    by_n = {}
    for n, case in ex:
        by_n.setdefault(("ex", n), []).append(case)
    for n, case in bd:
        by_n.setdefault(("bd", n), []).append(case)
    jobs, tags = [], []
    for (kind, n), cases in by_n.items():
        for ch in core.chunked(cases, 48 if n <= 4 else 16):
            jobs.append((n, ch))
            tags.append(kind)
    for tag, res in zip(tags, core.pmap(pairs_job, jobs, chunks=1)):
        for famname, ok, key, what, rp in res:
            fam = ctx.family(famname + (".seeded_n5_6" if tag == "bd" else ""), BOUNDED if tag == "bd" else GROUND, "native+brute-force oracle")
            fam.exhaustive = tag != "bd"
            if tag != "bd":
                fam.domain = "ALL (group or sub-list of its generators, graph) pairs for n=2,3; members of every 4-qubit class x ALL 64 graphs"
            ctx.record(fam, PROVED if ok else REFUTED, rp if fam.total < 2 else None)
            if not ok:
                ctx.violate(fam, key, what, rp)
    # large kernels: few operators on six qubits leave a kernel of dimension 19..23 (a full stabilizer never exceeds 3n = 18); every kernel rank is a different
    # amount of enumeration, so each is presented at least once (2^rank candidate rows: about 1 GB and 10 s at rank 21)
    hk = []
    path3 = G.id_from_adj(6, G.adj_from_edges(6, [(0, 1), (1, 2)]))
    ops = {3: (0b001000 | 0b010000, 0b010000 | 0b100000), 4: (0b001100 | 0b010000, 0b010000 | 0b100000), 5: (0b001110 | 0b010000, 0b010000 | 0b100001),
           2: (0b010000, 0b010000 | 0b100000), 1: (0, 0b100000)}
    for w in ((3, 4, 5) if ctx.quick else (1, 2, 3, 4, 5)):
        hk.append((6, ([ops[w]], 0, None)))
        if w >= 3:
            hk.append((6, ([ops[w]], path3, None)))
    if not ctx.quick:
        hk.append((6, ([(0b110000, 0), (0, 0b110000)], G.id_from_adj(6, G.adj_from_edges(6, [(4, 5)])), None)))      # two operators, rank 20
        hk.append((6, ([(0b000001, 0b000010), (0b100000, 0b010000)], 0, None)))
    famk = ctx.family("C16.ground.high_kernel_rank", GROUND, "native+brute-force oracle",
                      "soundness and completeness on inputs whose linear system has a kernel of dimension 19..21 (thorough: ..23): one to two operators on six qubits")
    famk.exhaustive = True
    famk.domain = f"{len(hk)} listed (operators, graph) pairs covering kernel ranks {'19, 20, 21' if ctx.quick else '19..23'}"
    for res in core.pmap(pairs_job, [(n, [case]) for n, case in hk], chunks=1, procs=4):
        for famname, ok, key, what, rp in res:
            ctx.record(famk, PROVED if ok else REFUTED, rp if famk.total < 2 else None)
            if not ok:
                ctx.violate(famk, key, what, rp)
    # the GRAPH argument is an input dimension of its own: every labelled graph on 2..6 vertices as the target, (a) with a seeded local-Clifford image of its own graph
    # state (a layer exists: completeness and soundness) and (b) with the graph state of the same graph minus one edge (existence unknown: soundness of whatever is returned)
    tj = []
    for n in range(2, 7):
        tot = 1 << (n * (n - 1) // 2)
        step = 256
        tj += [(n, lo, min(tot, lo + step), ctx.seed) for lo in range(0, tot, step)]
    famt = {}
    for res in core.pmap(target_graph_job, tj, chunks=1):
        for famname, ok, key, what, rp in res:
            fam = famt.get(famname)
            if fam is None:
                fam = famt[famname] = ctx.family(famname, GROUND, "native+oracle", "every labelled graph as the target of the search")
                fam.exhaustive = True
                fam.domain = "ALL labelled graphs on 2..6 vertices (33 865) x {own graph state under a seeded local-Clifford layer, graph state of the graph minus one edge}"
            ctx.record(fam, PROVED if ok else REFUTED, rp if fam.total < 2 else None)
            if not ok:
                ctx.violate(fam, key, what, rp)
    # classes without local symmetry: each of the 6^n members has exactly one layer onto the graph
    rj, rtags = [], []
    rnd = random.Random(ctx.seed + 161)
    for n in (5, 6):
        graphs = rigid_graphs(5) if n == 5 else [G.id_from_adj(6, G.adj_from_edges(6, [(i, (i + 1) % 6) for i in range(6)]))]
        for gid in graphs[: (2 if ctx.quick else 6)] if n == 5 else graphs:
            if n == 5 or not ctx.quick:
                layers = list(itertools.product(range(6), repeat=n))
                mode = "all"
            else:
                layers = [tuple([u] * n) for u in range(6)] + [tuple(u if q != p else v for q in range(n)) for u in range(6) for p in range(n) for v in range(6) if v != u]
                layers += [tuple(rnd.randrange(6) for _ in range(n)) for _ in range(400)]
                mode = "structured"
            for ch in core.chunked(layers, 64):
                rj.append((n, gid, ch))
                rtags.append((n, mode))
    for (n, mode), res in zip(rtags, core.pmap(rigid_job, rj, chunks=1)):
        for famname, ok, key, what, rp in res:
            exh = mode == "all"
            fam = ctx.family(famname + f".n{n}" + ("" if exh else ".structured_layers"), GROUND if exh else BOUNDED, "native+oracle",
                             "members of a class without local symmetry against their graph: the search must find the single existing layer")
            fam.exhaustive = exh
            fam.domain = f"{'ALL 6^' + str(n) if exh else 'uniform, one-deviation and seeded'} local-Clifford images of rigid graph states on {n} qubits"
            ctx.record(fam, PROVED if ok else REFUTED, rp if fam.total < 2 else None)
            if not ok:
                ctx.violate(fam, key, what, rp)
    ctx.extra["rigid_graphs_n5"] = rigid_graphs(5)
    ctx.extra["ground_time_s"] = round(time.time() - t, 2)
    ctx.extra["ground_cases"] = {"exhaustive": len(ex), "seeded": len(bd)}
    ctx.trust(*symrun.PYVC_TRUST)
    ctx.trust("M6: conjugation action of H (x<->z) and S (z += x) on single-qubit Paulis (oracle gate rules, cross-checked densely)",
              "null_space contract on the (n*m) x 4n shapes (C18)", "itertools.product enumerates all 0/1 tuples once (assumed)")
    ctx.assume(*symrun.PYVC_ASSUMPTIONS)
    ctx.assume("proved for all 1<=m<=n<=6 (7 in the thorough tier); 'any n' is not claimed", "segC is proved for kernel ranks 0..4 (same code path for every rank)")
    return core.finish(ctx, "proof", "segment VCs from the real AST (pyvc; ANF for the linearity identity, z3 for the loop body) + five-line lemma; brute-force cross-check",
                       "Linearity, filter, decoder and gate-word contracts proved for all inputs of each shape; top-level contract cross-checked against brute force over 6^n layers.",
                       "./check C16 --tier " + ctx.tier)


def replay(data):
    inp = data["input"]
    if "operators" in inp:
        rows = [P.from_label(l)[:2] for l in inp["operators"]]
        bad = [r for r in eval_pair(inp["n"], rows, inp["graph_id"]) if not r[1]]
        for r in bad:
            print("REPRODUCED:", r[3])
        return 1 if bad else 0
    print("symbolic obligation:", data["obligation"], inp)
    return 1
