"""Independent graph / local-complementation / LC-class oracle (no repository code, no qiskit).

Graph = tuple of n adjacency bitmasks.  Graph id = documented layout: upper triangle row-major, bit 0 first:
pairs (0,1),(0,2),...,(0,n-1),(1,2),... get bit positions 0,1,2,...
"""
from __future__ import annotations
import itertools, os, pickle
from functools import lru_cache
from . import pauli as P

EXPECTED_ORBITS = {1: 1, 2: 2, 3: 5, 4: 18, 5: 93, 6: 760}
EXPECTED_GROUPS = {1: 3, 2: 15, 3: 135, 4: 2295, 5: 75735, 6: 4922775}


@lru_cache(None)
def pair_list(n):
    return [(i, j) for i in range(n) for j in range(i + 1, n)]


def adj_from_id(n, gid):
    adj = [0] * n
    for pos, (i, j) in enumerate(pair_list(n)):
        if (gid >> pos) & 1:
            adj[i] |= 1 << j
            adj[j] |= 1 << i
    return tuple(adj)


def id_from_adj(n, adj):
    gid = 0
    for pos, (i, j) in enumerate(pair_list(n)):
        if (adj[i] >> j) & 1:
            gid |= 1 << pos
    return gid


def adj_from_edges(n, edges):
    adj = [0] * n
    for i, j in edges:
        adj[i] |= 1 << j
        adj[j] |= 1 << i
    return tuple(adj)


def edges_of(n, adj):
    return [(i, j) for i, j in pair_list(n) if (adj[i] >> j) & 1]


def is_simple(n, adj):
    return all(not (adj[i] >> i) & 1 for i in range(n)) and \
        all(((adj[i] >> j) & 1) == ((adj[j] >> i) & 1) for i in range(n) for j in range(n)) and \
        all(adj[i] < (1 << n) for i in range(n))


def lc(n, adj, v):
    """Local complementation at v: toggle every pair inside N(v)."""
    nb = adj[v]
    out = list(adj)
    for a in range(n):
        if (nb >> a) & 1:
            out[a] ^= nb & ~(1 << a)
    return tuple(out)


@lru_cache(None)
def orbit_table(n):
    """(orbit_of[gid] list, representatives list (smallest gid of each orbit, sorted))."""
    total = 1 << (n * (n - 1) // 2)
    orbit_of = [-1] * total
    reps = []
    for g in range(total):
        if orbit_of[g] != -1:
            continue
        k = len(reps)
        reps.append(g)
        orbit_of[g] = k
        stack = [g]
        while stack:
            cur = stack.pop()
            a = adj_from_id(n, cur)
            for v in range(n):
                nx = id_from_adj(n, lc(n, a, v))
                if orbit_of[nx] == -1:
                    orbit_of[nx] = k
                    stack.append(nx)
    return orbit_of, reps


def graph_state_gens(n, adj):
    return [(1 << v, adj[v], 0) for v in range(n)]


def reduce_to_graph(n, gens):
    """For an (unsigned) valid stabilizer find a graph whose graph state is local-Clifford equivalent to it.
    Returns (adj, hset) where hset is the set of qubits on which H was applied first.  None if invalid."""
    rows0 = [(x, z) for x, z, *_ in gens]
    for r in range(n + 1):
        for hset in itertools.combinations(range(n), r):
            hm = 0
            for q in hset:
                hm |= 1 << q
            rows = [((x & ~hm) | (z & hm), (z & ~hm) | (x & hm)) for x, z in rows0]
            # Gaussian elimination on X block to identity
            rows = list(rows)
            ok = True
            for q in range(n):
                piv = None
                for idx in range(q, n):
                    if (rows[idx][0] >> q) & 1:
                        piv = idx
                        break
                if piv is None:
                    ok = False
                    break
                rows[q], rows[piv] = rows[piv], rows[q]
                for idx in range(n):
                    if idx != q and (rows[idx][0] >> q) & 1:
                        rows[idx] = (rows[idx][0] ^ rows[q][0], rows[idx][1] ^ rows[q][1])
            if not ok:
                continue
            adj = tuple(rows[q][1] & ~(1 << q) for q in range(n))   # S gates clear the diagonal
            if not is_simple(n, adj):
                return None      # not commuting
            return adj, hset
    return None


def classify(n, gens):
    """Orbit index (into orbit_table(n)) of a valid stabilizer, by reduction to a graph."""
    r = reduce_to_graph(n, gens)
    if r is None:
        return None
    return orbit_table(n)[0][id_from_adj(n, r[0])]


# ---- local Clifford action on unsigned Paulis ---------------------------------------------------
# the six invertible 2x2 matrices over GF(2), as maps (x,z) -> (x',z') = (a x + b z, c x + d z)
SIX = [(1, 0, 0, 1), (0, 1, 1, 0), (1, 0, 1, 1), (1, 1, 1, 0), (0, 1, 1, 1), (1, 1, 0, 1)]


def apply_layer_unsigned(n, rows, layer):
    """rows: list of (x,z); layer: list of n indices into SIX."""
    out = []
    for x, z in rows:
        nx = nz = 0
        for q in range(n):
            a, b, c, d = SIX[layer[q]]
            xq, zq = (x >> q) & 1, (z >> q) & 1
            nx |= ((a & xq) ^ (b & zq)) << q
            nz |= ((c & xq) ^ (d & zq)) << q
        out.append((nx, nz))
    return out


def canon_keys(n, rows):
    """Canonical RREF (as sorted tuple of 2n-bit ints) of unsigned generators; None if dependent."""
    ks = [x | (z << n) for x, z in rows]
    out = []
    for k in ks:
        for o in out:
            if k & (1 << (o.bit_length() - 1)):
                k ^= o
        if k == 0:
            return None
        lead = 1 << (k.bit_length() - 1)
        out = [o ^ k if o & lead else o for o in out]
        out.append(k)
    out.sort(reverse=True)
    return tuple(out)


_CACHE_DIR = os.path.join(os.path.dirname(os.path.dirname(os.path.dirname(os.path.abspath(__file__)))), ".cache")


def all_groups(n, use_cache=True):
    """Dict canonical-key -> orbit index for ALL stabilizer groups (mod signs) on n qubits.  Built from the orbit
    representatives' graph states under all 6^n local layers; completeness is checked by count against
    prod_{k=1..n}(2^k+1)."""
    path = os.path.join(_CACHE_DIR, f"groups{n}.pkl")
    if use_cache and os.path.exists(path):
        try:
            with open(path, "rb") as f:
                d = pickle.load(f)
        except Exception:
            d = {}                                  # unreadable cache: recompute
        if len(d) == EXPECTED_GROUPS[n]:
            return d
    orbit_of, reps = orbit_table(n)
    d = {}
    # per-qubit lookup: for each of the six maps and each (xq,zq) the image bits
    for k, g in enumerate(reps):
        rows0 = [(x, z) for x, z, _ in graph_state_gens(n, adj_from_id(n, g))]
        for layer in itertools.product(range(6), repeat=n):
            key = canon_keys(n, apply_layer_unsigned(n, rows0, layer))
            prev = d.setdefault(key, k)
            if prev != k:
                raise AssertionError("oracle: one group reached from two LC orbits")
    if len(d) != EXPECTED_GROUPS[n]:
        raise AssertionError(f"oracle: group enumeration incomplete for n={n}: {len(d)}")
    if use_cache:
        os.makedirs(_CACHE_DIR, exist_ok=True)
        tmp = path + f".{os.getpid()}.tmp"
        with open(tmp, "wb") as f:
            pickle.dump(d, f)
        os.replace(tmp, path)
    return d


def rows_from_key(n, key):
    m = (1 << n) - 1
    return [(k & m, k >> n) for k in key]


# ---- minimal two-qubit cost: BFS in the LC-quotient graph -----------------------------------------
AXIS = [[], ["h"], ["sdg", "h"]]      # local Cliffords sending the Z / X / Y axis to Z
ALL6 = [[], ["h"], ["s"], ["s", "h"], ["h", "s"], ["h", "s", "h"]]


def mincost(n, edges, full_local=False):
    """Breadth-first distance of every LC orbit from the product orbit, where one step is
    'arbitrary single-qubit Cliffords, then CZ on a coupled pair'.  Returns (dist list, witness list) with
    witness[k] a gate list preparing (from |0..0>) some state of orbit k with dist[k] two-qubit gates."""
    orbit_of, reps = orbit_table(n)
    K = len(reps)
    dist = [None] * K
    wit = [None] * K
    start = [("h", [q]) for q in range(n)]
    k0 = classify(n, P.state_generators(n, start))
    dist[k0] = 0
    wit[k0] = start
    frontier = [k0]
    locs = ALL6 if full_local else AXIS
    while frontier:
        nxt = []
        for k in frontier:
            base = wit[k]
            gens = P.state_generators(n, base)
            for a, b in edges:
                for la in locs:
                    for lb in locs:
                        step = [(g, [a]) for g in la] + [(g, [b]) for g in lb] + [("cz", [a, b])]
                        g2 = [P.conj_circuit(p, step) for p in gens]
                        k2 = classify(n, g2)
                        if dist[k2] is None:
                            dist[k2] = dist[k] + 1
                            wit[k2] = base + step
                            nxt.append(k2)
        frontier = nxt
    return dist, wit


def selftest():
    """Orbit counts; LC-orbit vs brute-force local-Clifford equivalence for n<=3 (M5 sanity)."""
    checked = 0
    for n in (2, 3, 4, 5):
        if len(orbit_table(n)[1]) != EXPECTED_ORBITS[n]:
            raise AssertionError("oracle: orbit count")
        checked += 1
    for n in (2, 3):
        orbit_of, reps = orbit_table(n)
        total = 1 << (n * (n - 1) // 2)
        canon_of = {}
        for g in range(total):
            rows0 = [(x, z) for x, z, _ in graph_state_gens(n, adj_from_id(n, g))]
            canon_of[g] = {canon_keys(n, apply_layer_unsigned(n, rows0, layer))
                           for layer in itertools.product(range(6), repeat=n)}
        for g1 in range(total):
            for g2 in range(total):
                eq = bool(canon_of[g1] & canon_of[g2])
                if eq != (orbit_of[g1] == orbit_of[g2]):
                    raise AssertionError("oracle: LC orbit != local Clifford equivalence")
                checked += 1
    # reduce_to_graph agrees with construction
    for n in (2, 3):
        for key, k in all_groups(n, use_cache=False).items():
            if classify(n, [(x, z, 0) for x, z in rows_from_key(n, key)]) != k:
                raise AssertionError("oracle: classify disagrees with construction")
            checked += 1
    return checked
