"""Obligations that several top-level checks re-establish because their lemma rests on them: the glue code of stabilizer_circuits (token terms), the
segment contracts of the layer search (complete for all inputs, a few seconds), and purity of the pipeline functions."""
from __future__ import annotations
from . import symrun


def pipeline_contracts(ctx, with_layer_search=True):
    import htstabilizer.stabilizer_circuits as sc
    import htstabilizer.rotate_stabilizer_into_state as rot
    import htstabilizer.find_local_clifford_layer as fl
    from .contracts import pipeline, layer
    symrun.purity(ctx, (sc.get_preparation_circuit, sc.get_readout_circuit, sc.compress_preparation_circuit, sc._get_preparation_circuit_modulo_phase,
                        rot.rotate_stabilizer_into_state, rot._rotate_stabilizer_into_state_circuit, rot.synth_circuit_from_stabilizers,
                        fl.find_local_clifford_layer, fl.local_clifford_layer_to_circuit),
                  f"{ctx.pid}.frame.no_module_state", allow=("single_qubit_gate_canceller",))
    tasks = pipeline.glue_tasks()
    if with_layer_search:
        tasks += [layer.task_basis()]
        tasks += [layer.task_segA(n, m) for n in range(2, 7) for m in sorted({1, n})]
        tasks += [layer.task_segD(n, m) for n in range(2, 7) for m in sorted({1, n})]
        tasks += [layer.task_to_circuit(n) for n in (2, 6)]
    symrun.run(ctx, tasks, label="pipeline-prerequisites")
