"""Obligations that several top-level checks re-establish because their lemma rests on them: the glue code of stabilizer_circuits (token terms), the
segment contracts of the layer search (complete for all inputs, a few seconds), and purity of the pipeline functions."""
from __future__ import annotations
from . import symrun


def pipeline_contracts(ctx, with_layer_search=True):
    import htstabilizer.stabilizer_circuits as sc
    import htstabilizer.rotate_stabilizer_into_state as rot
    import htstabilizer.find_local_clifford_layer as fl
    from .contracts import pipeline, layer
    symrun.purity(ctx, (sc.get_preparation_circuit, sc.get_readout_circuit, sc.compress_preparation_circuit, sc._get_preparation_circuit_modulo_phase,
                        rot.rotate_stabilizer_into_state, rot._rotate_stabilizer_into_state_circuit, rot.synth_circuit_from_stabilizers,
                        fl.find_local_clifford_layer, fl.local_clifford_layer_to_circuit),
                  f"{ctx.pid}.frame.no_module_state", allow=("single_qubit_gate_canceller",))
    tasks = pipeline.glue_tasks()
    if with_layer_search:
        tasks += [layer.task_basis()]
        tasks += [layer.task_segA(n, m) for n in range(2, 7) for m in sorted({1, n})]
        tasks += [layer.task_segD(n, m) for n in range(2, 7) for m in sorted({1, n})]
        tasks += [layer.task_to_circuit(n) for n in (2, 6)]
    symrun.run(ctx, tasks, label="pipeline-prerequisites")
    if with_layer_search:
        rigid_class_completeness(ctx)


def rigid_class_completeness(ctx):
    """GROUND witness family behind the segment contracts: in a class without local symmetry every one of the 6^n members has exactly ONE local-Clifford layer onto the
    representative graph, so a search that skips any candidate (weight filters, bucket ranges, sentinels) fails on some member.  All 6^5 members of one rigid 5-qubit
    class; uniform, one-deviation and seeded members of the 6-ring class."""
    import itertools, random
    from . import core
    from .checks import c16
    from .oracle import graphs as G
    rnd = random.Random(ctx.seed + 1610)
    jobs, tags = [], []
    g5 = c16.rigid_graphs(5)[0]
    for ch in core.chunked(list(itertools.product(range(6), repeat=5)), 128):
        jobs.append((5, g5, ch))
        tags.append((5, True))
    n = 6
    ring = G.id_from_adj(6, G.adj_from_edges(6, [(i, (i + 1) % 6) for i in range(6)]))
    layers = [tuple([u] * n) for u in range(6)] + [tuple(u if q != p else v for q in range(n)) for u in range(6) for p in range(n) for v in range(6) if v != u]
    layers += [tuple(rnd.randrange(6) for _ in range(n)) for _ in range(60)]
    for ch in core.chunked(layers, 32):
        jobs.append((6, ring, ch))
        tags.append((6, False))
    for (n, exh), res in zip(tags, core.pmap(c16.rigid_job, jobs, chunks=1)):
        for famname, ok, key, what, rp in res:
            name = famname.replace("C16.ground.rigid_class.", f"{ctx.pid}.find_layer.rigid_class.") + f".n{n}" + ("" if exh else ".structured_members")
            fam = ctx.family(name, core.GROUND if exh else core.BOUNDED, "native+oracle", "members of a class without local symmetry: the layer search finds the single existing layer")
            fam.exhaustive = exh
            fam.domain = ("ALL 6^5 local-Clifford images of a rigid 5-qubit graph state" if exh else "uniform, one-deviation and seeded local-Clifford images of the 6-ring graph state")
            ctx.record(fam, core.PROVED if ok else core.REFUTED, rp if fam.total < 2 else None)
            if not ok:
                ctx.violate(fam, key.replace("C16", ctx.pid), what, rp)
