"""Specification predicates used in sidecar contracts.

Every predicate works on symbolic values (returning an SB / bool built from expr.E) and on concrete values
(returning bool) alike, so the same text builds the VC and evaluates a counterexample natively (replay)."""
from __future__ import annotations
import numpy as np
from .pyvc import expr as X
from .pyvc import sym as S
from .pyvc.sym import SB, SL, SV, GList, bexpr, mkbool, veq


def B(v):
    """truth value as E|bool"""
    return bexpr(v)


def AND(*vs):
    if len(vs) == 1 and not isinstance(vs[0], (SB, SL, SV, bool, np.bool_, X.E, int, np.integer)):
        vs = list(vs[0])
    return mkbool(X.And(*[B(v) for v in vs]))


def OR(*vs):
    if len(vs) == 1 and not isinstance(vs[0], (SB, SL, SV, bool, np.bool_, X.E, int, np.integer)):
        vs = list(vs[0])
    return mkbool(X.Or(*[B(v) for v in vs]))


def NOT(v):
    return mkbool(X.Not(B(v)))


def IMPLIES(a, b):
    return mkbool(X.Implies(B(a), B(b)))


def IFF(a, b):
    return mkbool(X.Iff(B(a), B(b)))


def EQ(a, b):
    """value equality (scalars or same-shape arrays / lists)"""
    if isinstance(a, np.ndarray) or isinstance(b, np.ndarray):
        a, b = np.asarray(a, dtype=object), np.asarray(b, dtype=object)
        if a.shape != b.shape:
            return False
        return AND([veq(S_py(x), S_py(y)) for x, y in zip(a.reshape(-1), b.reshape(-1))])
    return mkbool(B(veq(S_py(a), S_py(b))))


def S_py(v):
    if isinstance(v, np.bool_):
        return bool(v)
    if isinstance(v, np.integer):
        return int(v)
    return v


def XOR(*vs):
    return S.mkbit(X.Xor(*[B(v) for v in vs]))


def COUNT(bits):
    """number of true values (int or SL)"""
    acc = 0
    for b in bits:
        e = B(b)
        if e is True:
            acc = acc + 1
        elif e is not False:
            acc = acc + SB(e)
    return acc


def is_bit(v):
    if isinstance(v, SB):
        return True
    return S.cbit(v) is not None


def is_bit_matrix(A):
    return all(is_bit(v) for v in np.asarray(A, dtype=object).reshape(-1))


def bit(v):
    """E|bool of a 0/1 value"""
    return B(veq(S_py(v), 1))


# ---- GF(2) linear algebra -----------------------------------------------------------------------------

def gf2_dot(u, v):
    """parity of sum u_i v_i  (as 0/1 or SB)"""
    return S.mkbit(X.Xor(*[X.And(bit(a), bit(b)) for a, b in zip(u, v)]))


def gf2_matmul(A, Bm):
    A = np.asarray(A, dtype=object)
    Bm = np.asarray(Bm, dtype=object)
    out = np.empty((A.shape[0], Bm.shape[1]), dtype=object)
    for i in range(A.shape[0]):
        for j in range(Bm.shape[1]):
            out[i, j] = gf2_dot(A[i, :], Bm[:, j])
    return out


def gf2_matvec(A, v):
    A = np.asarray(A, dtype=object)
    return [gf2_dot(A[i, :], v) for i in range(A.shape[0])]


def pivot_indicator(piv, ncols):
    """[E|bool] p_c = column c is a pivot column, from a list / GList of column indices"""
    if isinstance(piv, GList):
        out = []
        for c in range(ncols):
            out.append(X.Or(*[X.And(g, B(veq(v, c))) for g, v in piv.slots]))
        return out
    return [c in list(piv) for c in range(ncols)]


def strictly_increasing(piv):
    """piv (list/GList of ints) is strictly increasing"""
    if isinstance(piv, GList):
        slots = piv.slots
        conds = []
        for i in range(len(slots)):
            for j in range(i + 1, len(slots)):
                gi, vi = slots[i]
                gj, vj = slots[j]
                conds.append(X.Implies(X.And(gi, gj), B(vi < vj)))
        return mkbool(X.And(*conds))
    p = list(piv)
    return all(a < b for a, b in zip(p, p[1:]))


def count_onehot(bits, upto=None):
    """DP table T with T[c][j] = 'exactly j of bits[0..c-1] are true' (E|bool), pure boolean (no arithmetic)"""
    n = len(bits)
    T = [[True] + [False] * n]
    for c in range(n):
        prev = T[-1]
        row = []
        for j in range(n + 1):
            stay = X.And(prev[j], X.Not(bits[c]))
            up = X.And(prev[j - 1], bits[c]) if j > 0 else False
            row.append(X.Or(stay, up))
        T.append(row)
    return T


def count_is(bits, k):
    """exactly k of the bits are true"""
    if k < 0 or k > len(bits):
        return False
    return count_onehot(bits)[len(bits)][k]


def rref_form(Bm, piv, upto=None):
    """Bm (m x n bits) is in reduced row echelon form with pivot columns `piv`:
       piv strictly increasing; with t(c) = number of pivots in columns < c:
         p_c      =>  column c is the unit vector e_{t(c)}
         always   =>  Bm[r, c] = 0 for every row r >= t(c) + p_c       (rows below the rank are zero, and each row is
                                                                       zero to the left of its leading entry)
       `upto` restricts the statement to columns < upto (loop invariant).
       t(c) is encoded one-hot (T[c][j] = 'exactly j pivots before column c'), so the formula is purely boolean."""
    Bm = np.asarray(Bm, dtype=object)
    m, n = Bm.shape
    k = n if upto is None else upto
    p = pivot_indicator(piv, n)
    conds = [B(strictly_increasing(piv))]
    if isinstance(piv, GList):
        conds.append(X.And(*[X.Implies(g, B(S.land(v >= 0, v < n))) for g, v in piv.slots]))
    else:
        conds.append(all(0 <= c < n for c in piv))
    T = count_onehot(p[:k])
    for c in range(k):
        for j in range(min(c, m) + 1):
            tj = T[c][j]                      # exactly j pivots among columns < c
            if tj is False:
                continue
            for r in range(m):
                e = bit(Bm[r, c])
                if r > j:
                    conds.append(X.Implies(tj, X.Not(e)))                         # below t(c)+p_c in any case
                elif r == j:
                    conds.append(X.Implies(X.And(tj, X.Not(p[c])), X.Not(e)))     # r >= t(c) when no pivot here
                    conds.append(X.Implies(X.And(tj, p[c]), e))                    # the pivot entry
                else:
                    conds.append(X.Implies(X.And(tj, p[c]), X.Not(e)))            # unit column above the pivot
        # a pivot needs a row: not (p_c and t(c) >= m)
        for j in range(m, c + 1):
            conds.append(X.Not(X.And(T[c][j], p[c])))
    return mkbool(X.And(*conds))
