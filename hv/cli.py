"""./check <ID> [--tier quick|thorough] [--seed N] [--replay PATH]

exit 0 held / 1 violation (VIOLATION line) / 2 undecided / 3 checker crash."""
import argparse, importlib, json, os, sys, traceback
from . import core


def main(argv=None):
    ap = argparse.ArgumentParser()
    ap.add_argument("pid")
    ap.add_argument("--tier", default=os.environ.get("VERIF_TIER", "quick"), choices=["quick", "thorough"])
    ap.add_argument("--seed", type=int, default=int(os.environ.get("VERIF_SEED", "0") or 0))
    ap.add_argument("--replay", default=None)
    a = ap.parse_args(argv)
    pid = a.pid.upper()
    try:
        mod = importlib.import_module(f"hv.checks.{pid.lower()}")
    except ImportError:
        traceback.print_exc()
        print(f"checker error: no check module for {pid}", file=sys.stderr)
        return 3
    try:
        if a.replay:
            with open(a.replay) as f:
                data = json.load(f)
            if ".find_layer.rigid_class." in str(data.get("obligation", "")):       # prerequisite family shared by the pipeline checks (hv/prereq.py): replayed by C16's evaluator
                return importlib.import_module("hv.checks.c16").replay(data)
            return mod.replay(data)
        ctx = core.Ctx(pid, a.tier, a.seed)
        return mod.run(ctx)
    except core.CheckerError as e:
        print(f"checker error: {e}", file=sys.stderr)
        return 3
    except Exception:
        traceback.print_exc()
        print("checker crash (not a violation)", file=sys.stderr)
        return 3


if __name__ == "__main__":
    sys.exit(main())
