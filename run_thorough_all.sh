#!/bin/bash
# runs every check's thorough tier sequentially (used to validate the thorough commands; not registered in MANIFEST)
for c in C17 C19 C09 C13 C14 C15 C08 C16 C07 C10 C12 C11 C05 C06 C02 C03 C04 C01 C18; do
  s=$(date +%s); ./check $c --tier thorough > thorough_$c.log 2>&1; e=$?; echo "$c exit=$e $(( $(date +%s)-s ))s $(tail -1 thorough_$c.log)"
done
